#!/bin/bash
# Runs the pinned suite of /repo (guard off) and prints anything that is not ok,
# ignoring the TestOsFS/TestCreateHomeDir flake that BASELINE.json excludes.
cd "${1:-/repo}" && go test -vet=off -count=1 ./... 2>&1 | grep -v "^ok\|no test files" | grep -v "TestCreateHomeDir\|CreateHomeDir UsrTest\|^FAIL$\|^--- FAIL: TestOsFS \|test_suite.go:47\|FAIL	github.com/avfs/avfs/vfs/osfs" ; echo "suite done"
