#!/bin/bash
# tools/mutant.sh <patch.diff> <PROP>[,<PROP>...] [tier]   - sensitivity run against one seeded change.
#
# Applies the patch to a throw-away git worktree of /repo's HEAD, runs the named checks from
# a throw-away copy of /verif (so evidence/ and replays/*/found of the real /verif are not
# touched and several mutants can be evaluated in parallel), prints one line per check
#   <patch> <PROP> exit=<rc> violations=<n> first=<signature of the first one>
# and removes both copies. Nothing is committed anywhere.
set -u
patch=$(readlink -f "$1"); props=$2; tier=${3:-quick}
tag=$(basename "$(dirname "$patch")")-$(basename "$patch" .diff)-$$
wt=/tmp/vm/repo-$tag; vc=/tmp/vm/verif-$tag
mkdir -p /tmp/vm
git -C /repo worktree add --detach "$wt" HEAD >/dev/null 2>&1 || { echo "worktree failed"; exit 2; }
trap 'git -C /repo worktree remove --force "$wt" >/dev/null 2>&1; rm -rf "$vc"' EXIT
git -C "$wt" apply "$patch" || { echo "$patch: does not apply"; exit 2; }
mkdir -p "$vc"; rsync -a --exclude .git --exclude .work --exclude evidence --exclude seeded /verif/ "$vc"/
mkdir -p "$vc/.work"; cp /verif/.work/instrument "$vc/.work/" 2>/dev/null
for p in ${props//,/ }; do
  out=$(VERIF_REPO="$wt" VERIF_TIER=$tier timeout 3600 "$vc/bin/check" "$p" --tier "$tier" 2>&1); rc=$?
  n=$(echo "$out" | grep -c '^VIOLATION')
  first=$(echo "$out" | grep -m1 -A3 '^VIOLATION' | tr '\n' ' ' | cut -c1-400)
  echo "$(basename "$(dirname "$patch")")/$(basename "$patch") $p tier=$tier exit=$rc violations=$n :: $first"
  [ -n "${MUTANT_LOG:-}" ] && echo "$out" > "$MUTANT_LOG.$p.log"
done
