#!/usr/bin/env python3
"""Developer aid: run one property's test binary on all shards with a high violation cap
and print deviations grouped by (fs, op, expected, observed)."""
import subprocess, sys, os, re, json, collections, tempfile, glob
prop = sys.argv[1].lower()
tier = sys.argv[2] if len(sys.argv) > 2 else "quick"
n = int(sys.argv[3]) if len(sys.argv) > 3 else 4
env = dict(os.environ, GOFLAGS="-mod=mod", GOPROXY="off", GOTOOLCHAIN="local")
work = tempfile.mkdtemp(dir="/verif/.work")
tags = "verif,avfs_setostype" if prop in ("c13", "c17") else "verif"
subprocess.check_call(["go", "test", "-c", "-vet=off", "-tags", tags, "-o", work + "/t", "./" + prop], cwd="/verif/harness", env=env)
import shutil
shutil.rmtree("/verif/replays/%s/found" % prop.upper(), ignore_errors=True)
procs = []
for i in range(n):
    e = dict(env, VERIF_TIER=tier, VERIF_SHARD=str(i), VERIF_NSHARDS=str(n), VERIF_OUT=work, VERIF_ROOT="/verif", VERIF_MAXVIOL="100000", VERIF_HANG_MS=os.environ.get("VERIF_HANG_MS","200"), VERIF_SEED=os.environ.get("VERIF_SEED", "1"))
    procs.append(subprocess.Popen([work + "/t", "-test.run", "^TestCheck$", "-test.timeout", "600s"], cwd="/verif/harness/" + prop, env=e, stdout=open(work + "/log%d" % i, "w"), stderr=subprocess.STDOUT))
for p in procs:
    p.wait()
groups = collections.OrderedDict()
for f in glob.glob(work + "/shard-*.json"):
    s = json.load(open(f))
    for v in (s.get("violations") or []):
        fl = dict(kv.split("=", 1) for kv in v["sig"].split("|") if "=" in kv)
        key = (fl.get("fs", ""), fl.get("op", fl.get("fn", "")), fl.get("expected", ""), fl.get("observed", ""), fl.get("mode", ""))
        g = groups.setdefault(key, [0, v["detail"], set()])
        g[0] += 1
        g[2].add((fl.get("a", ""), fl.get("b", ""), fl.get("rel", ""), fl.get("params", ""), fl.get('c1',''), fl.get('c2',''), fl.get('cl',''), fl.get('ce',''), fl.get('special','')))
    for x in (s.get("inconclusive") or [])[:5]:
        print("INCONCLUSIVE", x[:300])
for k, g in sorted(groups.items()):
    print("%-8s %-12s exp=%-10s obs=%-28s %s n=%d  e.g. %s" % (k[0], k[1], k[2], k[3], k[4], g[0], g[1][:230]))
    if "-v" in sys.argv:
        for sit in sorted(g[2])[:12]:
            print("      ", sit)
print(len(groups), "groups")
import shutil; shutil.rmtree(work, ignore_errors=True)
