#!/usr/bin/env python3
"""Union of the statement coverage of /repo by the checks (profiles written by
`VERIF_COVER=1 bin/check <ID>` under .work/cover/): which functions of avfs does no check reach?

usage: coverage_report.py [prop ...]      (default: all profiles found)
"""
import glob, os, re, subprocess, sys, collections
root = os.path.dirname(os.path.dirname(os.path.abspath(__file__)))
props = [p.upper() for p in sys.argv[1:]]
blocks = {}
for f in sorted(glob.glob(os.path.join(root, ".work", "cover", "*.out"))):
    if props and os.path.basename(f).split("-")[0] not in props:
        continue
    for l in open(f):
        if l.startswith("mode:"):
            continue
        m = re.match(r"(\S+) (\d+) (\d+)$", l.strip())
        if m:
            k = m.group(1)
            src = k.split(":")[0].replace("github.com/avfs/avfs", "/repo")
            if not os.path.exists(src):
                continue  # files that only exist in the build overlay (verifsync, invariant walkers)
            blocks[k] = (int(m.group(2)), max(blocks.get(k, (0, 0))[1], int(m.group(3))))
merged = os.path.join(root, ".work", "cover", "merged.profile")
with open(merged, "w") as o:
    o.write("mode: set\n")
    for k, (n, c) in sorted(blocks.items()):
        o.write("%s %d %d\n" % (k, n, 1 if c else 0))
env = dict(os.environ, GOFLAGS="-mod=mod", GOPROXY="off", GOSUMDB="off", GOTOOLCHAIN="local")
out = subprocess.run(["go", "tool", "cover", "-func", merged], cwd=os.path.join(root, "harness"), env=env, capture_output=True, text=True).stdout
zero, low = [], []
for l in out.splitlines():
    m = re.match(r"(\S+):\d+:\s+(\S+)\s+([\d.]+)%", l)
    if not m:
        print(l)
        continue
    file, fn, pct = m.group(1), m.group(2), float(m.group(3))
    if any(x in file for x in ("/test/", "_test.go", "/osfs/", "/osidm/", "dummy", "_string.go", "/rndtree", "/tree.go")):
        continue
    if pct == 0:
        zero.append("%s %s" % (file.replace("github.com/avfs/avfs/", ""), fn))
    elif pct < 85:
        low.append("%5.1f%% %s %s" % (pct, file.replace("github.com/avfs/avfs/", ""), fn))
print("functions never executed (%d):" % len(zero))
for z in zero:
    print("  " + z)
print("functions below 85%% (%d):" % len(low))
for z in sorted(low):
    print("  " + z)
