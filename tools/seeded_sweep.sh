#!/bin/bash
# tools/seeded_sweep.sh [tier] [extra-props] : run every seeded change under /verif/seeded against the
# check of its own property (plus, optionally, a comma list of further properties) and write
# seeded/RESULTS-<tier>.txt. Each run uses throw-away copies (see tools/mutant.sh); /repo is not touched.
tier=${1:-quick}; extra=${2:-}
out=/verif/seeded/RESULTS-$tier.txt; : > $out.tmp
for d in /verif/seeded/C*-*/; do
  id=$(basename $d); prop=${id%%-*}
  echo "$d/patch.diff $prop${extra:+,$extra} $tier"
done | xargs -P ${SWEEP_PAR:-4} -L 1 /verif/tools/mutant.sh 2>&1 | cut -c1-420 >> $out.tmp
sort $out.tmp > $out; rm -f $out.tmp
echo "caught: $(grep -c 'exit=1' $out)  missed: $(grep -c 'exit=0' $out)  inconclusive: $(grep -c 'exit=2' $out)  other: $(grep -vc 'exit=[012]' $out)"
