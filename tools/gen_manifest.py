#!/usr/bin/env python3
"""Regenerates MANIFEST.json, bin/rules.json and bin/assumptions.json from tools/checks.json
(one hand-written record per property: claimed or not, texts).  Validates against the schema."""
import json, os, sys
ROOT = os.path.dirname(os.path.dirname(os.path.abspath(__file__)))
spec = json.load(open(os.path.join(ROOT, "tools", "checks.json")))
props = [json.loads(l) for l in open(os.path.join(ROOT, "properties.jsonl"))]
checks, na, rules, assume = [], [], {}, {}
for p in props:
    pid = p["id"]
    s = spec["properties"].get(pid, {})
    if not s.get("claimed"):
        na.append({"property_id": pid, "reason": s.get("reason", "check not built yet (see DESIGN.md section 9 for the build order)")})
        continue
    rules[pid] = s["rule"]
    assume[pid] = s.get("assumptions", [])
    c = {
        "property_id": pid,
        "quick_cmd": "bin/check %s --tier quick" % pid,
        "thorough_cmd": "bin/check %s --tier thorough" % pid,
        "evidence_file": "/verif/evidence/%s.json" % pid,
        "replay_cmd_template": "bin/check %s --replay {path}" % pid,
        "engine": "harness",
        "level_claimed": {"category": s.get("level", "exploration"), "text": s["level_text"], "design_ref": "DESIGN.md section 4, " + pid},
        "level_note": s["level_note"],
        "technique": s["technique"],
    }
    checks.append(c)
m = {
    "version": 1,
    "setup_cmd": "bin/setup",
    "hooks": spec["hooks"],
    "engines": [{"name": "harness", "path": "harness", "serves_properties": [c["property_id"] for c in checks],
                 "kind_free_text": "Go test packages (pgregory.net/rapid v1.3.0 generators and state machines, hand-written bounded-exhaustive enumerators, kernel differential oracle thread, deterministic lock-step scheduler) driven by bin/check"}],
    "checks": checks,
    "notes": spec.get("notes", ""),
    "not_applicable": na,
}
json.dump(m, open(os.path.join(ROOT, "MANIFEST.json"), "w"), indent=1)
json.dump(rules, open(os.path.join(ROOT, "bin", "rules.json"), "w"), indent=1)
json.dump(assume, open(os.path.join(ROOT, "bin", "assumptions.json"), "w"), indent=1)
try:
    import jsonschema
    jsonschema.validate(m, json.load(open("/root/.vp/MANIFEST.schema.json")))
    print("MANIFEST.json valid: %d claimed, %d not_applicable" % (len(checks), len(na)))
except ImportError:
    print("MANIFEST.json written (jsonschema not available to validate)")
