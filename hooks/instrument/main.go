// instrument generates the go build overlay used by the checks that need to
// see lock acquisitions or internal state (DESIGN.md 3.7).  It reads the
// CURRENT sources of the repository, so a change to avfs is instrumented
// automatically:
//
//   - in vfs/memfs, vfs/orefafs, idm/memidm and the root package, every type
//     expression sync.RWMutex / sync.Mutex (struct fields, package variables)
//     is replaced by verifsync.RWMutex / verifsync.Mutex;
//   - package github.com/avfs/avfs/verifsync is added;
//   - the verif-tagged invariant walkers of /verif/hooks are added to memfs,
//     orefafs and memidm.
//
// Nothing is written inside the repository.
package main

import (
	"bytes"
	"encoding/json"
	"flag"
	"fmt"
	"go/ast"
	"go/format"
	"go/parser"
	"go/token"
	"os"
	"path/filepath"
	"strings"
)

func main() {
	repo := flag.String("repo", "/repo", "repository root")
	hooks := flag.String("hooks", "/verif/hooks", "directory with verifsync/ and *_invariants.go")
	out := flag.String("out", "", "directory for generated files")
	js := flag.String("json", "", "overlay json to write")
	flag.Parse()
	if *out == "" || *js == "" {
		fmt.Fprintln(os.Stderr, "usage: instrument -repo DIR -hooks DIR -out DIR -json FILE")
		os.Exit(2)
	}
	must(os.MkdirAll(*out, 0o755))
	replace := map[string]string{}
	pkgs := []string{".", "vfs/memfs", "vfs/orefafs", "idm/memidm"}
	n := 0
	for _, p := range pkgs {
		dir := filepath.Join(*repo, p)
		ents, err := os.ReadDir(dir)
		must(err)
		for _, e := range ents {
			name := e.Name()
			if e.IsDir() || !strings.HasSuffix(name, ".go") || strings.HasSuffix(name, "_test.go") {
				continue
			}
			src := filepath.Join(dir, name)
			b, err := os.ReadFile(src)
			must(err)
			if !bytes.Contains(b, []byte("sync.")) {
				continue
			}
			nb, changed := rewrite(src, b)
			if !changed {
				continue
			}
			dst := filepath.Join(*out, strings.ReplaceAll(strings.ReplaceAll(p, ".", "root"), "/", "_")+"__"+name)
			must(os.WriteFile(dst, nb, 0o644))
			replace[src] = dst
			n++
		}
	}
	if n == 0 {
		fmt.Fprintln(os.Stderr, "instrument: no mutex declaration found to instrument")
		os.Exit(1)
	}
	// added package
	replace[filepath.Join(*repo, "verifsync", "verifsync.go")] = filepath.Join(*hooks, "verifsync", "verifsync.go")
	// added invariant walkers
	for pkg, file := range map[string]string{"vfs/memfs": "memfs_invariants.go", "vfs/orefafs": "orefafs_invariants.go", "idm/memidm": "memidm_invariants.go"} {
		src := filepath.Join(*hooks, file)
		if _, err := os.Stat(src); err == nil {
			replace[filepath.Join(*repo, pkg, "verif_invariants.go")] = src
		}
	}
	b, _ := json.MarshalIndent(map[string]any{"Replace": replace}, "", " ")
	must(os.WriteFile(*js, b, 0o644))
}

func must(err error) {
	if err != nil {
		fmt.Fprintln(os.Stderr, "instrument:", err)
		os.Exit(1)
	}
}

// rewrite replaces sync.(RW)Mutex type expressions and fixes the imports.
func rewrite(name string, src []byte) ([]byte, bool) {
	fset := token.NewFileSet()
	f, err := parser.ParseFile(fset, name, src, parser.ParseComments)
	must(err)
	changed := false
	syncStillUsed := false
	ast.Inspect(f, func(n ast.Node) bool {
		sel, ok := n.(*ast.SelectorExpr)
		if !ok {
			return true
		}
		id, ok := sel.X.(*ast.Ident)
		if !ok || id.Name != "sync" {
			return true
		}
		if sel.Sel.Name == "RWMutex" || sel.Sel.Name == "Mutex" {
			id.Name = "verifsync"
			changed = true
		} else {
			syncStillUsed = true
		}
		return true
	})
	if !changed {
		return nil, false
	}
	// imports: add verifsync, drop sync when unused
	var imps []ast.Spec
	for _, d := range f.Decls {
		gd, ok := d.(*ast.GenDecl)
		if !ok || gd.Tok != token.IMPORT {
			continue
		}
		imps = gd.Specs[:0]
		for _, s := range gd.Specs {
			is := s.(*ast.ImportSpec)
			if is.Path.Value == `"sync"` && !syncStillUsed {
				continue
			}
			imps = append(imps, s)
		}
		imps = append(imps, &ast.ImportSpec{Path: &ast.BasicLit{Kind: token.STRING, Value: `"github.com/avfs/avfs/verifsync"`}})
		gd.Specs = imps
		if gd.Lparen == token.NoPos {
			gd.Lparen = gd.Pos()
			gd.Rparen = gd.End()
		}
		break
	}
	if imps == nil {
		// file without import declaration cannot mention sync
		return nil, false
	}
	var buf bytes.Buffer
	must(format.Node(&buf, fset, f))
	return buf.Bytes(), true
}
