module verif/instrument

go 1.23
