//go:build verif

package orefafs

import (
	"fmt"
	"sort"
)

// VerifCheck compares the flat path index of the file system with the tree of
// children maps (property C05): the set of indexed paths equals the set of
// paths reachable from the root through children, both name the same node,
// and the stored link count of every file equals its number of index entries.
// It must be called while no other goroutine uses the file system.
func VerifCheck(vfs *OrefaFS) []string {
	var out []string
	sep := string(vfs.PathSeparator())
	reach := map[string]*node{}
	var roots []string
	for p, nd := range vfs.nodes {
		// a root is an entry whose key has no separator (volume name, "" on Linux)
		if !containsSep(p, sep) {
			roots = append(roots, p)
			_ = nd
		}
	}
	sort.Strings(roots)
	count := 0
	var walk func(path string, nd *node, onPath map[*node]bool)
	walk = func(path string, nd *node, onPath map[*node]bool) {
		count++
		if count > 100000 {
			return
		}
		reach[path] = nd
		if !nd.mode.IsDir() {
			if len(nd.children) != 0 {
				out = append(out, fmt.Sprintf("non-directory %q has children", path))
			}
			return
		}
		if onPath[nd] {
			out = append(out, fmt.Sprintf("cycle: directory %q is its own ancestor", path))
			return
		}
		onPath[nd] = true
		for name, c := range nd.children {
			if name == "" {
				out = append(out, fmt.Sprintf("empty entry name in %q", path))
			}
			walk(path+sep+name, c, onPath)
		}
		delete(onPath, nd)
	}
	for _, r := range roots {
		walk(r, vfs.nodes[r], map[*node]bool{})
	}
	for p, nd := range vfs.nodes {
		r, ok := reach[p]
		if !ok {
			out = append(out, fmt.Sprintf("index entry %q is not reachable through children maps", p))
		} else if r != nd {
			out = append(out, fmt.Sprintf("index entry %q and the children map name different nodes", p))
		}
	}
	links := map[*node]int{}
	dirPaths := map[*node]int{}
	for p, nd := range reach {
		if _, ok := vfs.nodes[p]; !ok {
			out = append(out, fmt.Sprintf("path %q is reachable through children maps but not indexed", p))
		}
		if nd.mode.IsDir() {
			dirPaths[nd]++
		} else {
			links[nd]++
		}
	}
	for _, n := range dirPaths {
		if n > 1 {
			out = append(out, fmt.Sprintf("a directory node is reachable by %d paths", n))
		}
	}
	for nd, n := range links {
		if nd.nlink != n {
			out = append(out, fmt.Sprintf("file node id %d: stored nlink %d, %d paths refer to it", nd.id, nd.nlink, n))
		}
	}
	sort.Strings(out)
	return out
}

func containsSep(p, sep string) bool {
	for i := 0; i+len(sep) <= len(p); i++ {
		if p[i:i+len(sep)] == sep {
			return true
		}
	}
	return false
}
