//go:build verif

package memidm

import (
	"fmt"
	"sort"
)

// VerifCheck compares the four maps of the identity manager (property C15):
// by-name and by-id maps hold the same users and groups, keys match the
// stored names and ids, the administrator user and group are present.
func VerifCheck(idm *MemIdm) []string {
	var out []string
	for n, u := range idm.usersByName {
		if u.name != n {
			out = append(out, fmt.Sprintf("usersByName[%q] holds user named %q", n, u.name))
		}
		if idm.usersById[u.uid] != u {
			out = append(out, fmt.Sprintf("user %q (uid %d) missing from usersById", n, u.uid))
		}
	}
	for id, u := range idm.usersById {
		if u.uid != id {
			out = append(out, fmt.Sprintf("usersById[%d] holds uid %d", id, u.uid))
		}
		if idm.usersByName[u.name] != u {
			out = append(out, fmt.Sprintf("uid %d (%q) missing from usersByName", id, u.name))
		}
	}
	for n, g := range idm.groupsByName {
		if g.name != n {
			out = append(out, fmt.Sprintf("groupsByName[%q] holds group named %q", n, g.name))
		}
		if idm.groupsById[g.gid] != g {
			out = append(out, fmt.Sprintf("group %q (gid %d) missing from groupsById", n, g.gid))
		}
	}
	for id, g := range idm.groupsById {
		if g.gid != id {
			out = append(out, fmt.Sprintf("groupsById[%d] holds gid %d", id, g.gid))
		}
		if idm.groupsByName[g.name] != g {
			out = append(out, fmt.Sprintf("gid %d (%q) missing from groupsByName", id, g.name))
		}
	}
	sort.Strings(out)
	return out
}
