//go:build verif

package memfs

import (
	"fmt"
	"sort"
)

// VerifCheck walks the internal node graph of the file system and returns the
// violations of its structural invariants (property C05): every directory node
// has exactly one incoming edge and is not its own ancestor, the stored link
// count of every file node equals the number of directory entries that refer
// to it. It must be called while no other goroutine uses the file system.
func VerifCheck(vfs *MemFS) []string {
	var out []string
	roots := []*dirNode{vfs.rootNode}
	for _, v := range vfs.volumes {
		if v != vfs.rootNode {
			roots = append(roots, v)
		}
	}
	dirIn := map[*dirNode]int{}
	fileIn := map[*fileNode]int{}
	count := 0
	var walk func(d *dirNode, path string, onPath map[*dirNode]bool)
	walk = func(d *dirNode, path string, onPath map[*dirNode]bool) {
		count++
		if count > 100000 {
			return
		}
		if onPath[d] {
			out = append(out, fmt.Sprintf("cycle: directory %s is its own ancestor", path))
			return
		}
		onPath[d] = true
		names := make([]string, 0, len(d.children))
		for n := range d.children {
			names = append(names, n)
		}
		sort.Strings(names)
		for _, n := range names {
			switch c := d.children[n].(type) {
			case *dirNode:
				dirIn[c]++
				if dirIn[c] > 1 {
					out = append(out, fmt.Sprintf("directory %s/%s is reachable by more than one path", path, n))
					continue
				}
				walk(c, path+"/"+n, onPath)
			case *fileNode:
				fileIn[c]++
			case *symlinkNode:
			case nil:
				out = append(out, fmt.Sprintf("nil child %s/%s", path, n))
			}
			if n == "" {
				out = append(out, fmt.Sprintf("empty entry name in %s", path))
			}
		}
		delete(onPath, d)
	}
	for _, r := range roots {
		walk(r, "", map[*dirNode]bool{})
	}
	if count > 100000 {
		out = append(out, "walk does not terminate (node bound exceeded)")
	}
	byId := map[uint64]*fileNode{}
	for f, n := range fileIn {
		// SameFile tells files apart by their id: two file nodes with one id are one file to it
		if g, dup := byId[f.id]; dup && g != f {
			out = append(out, fmt.Sprintf("two distinct file nodes carry id %d (SameFile reports them as one file)", f.id))
		}
		byId[f.id] = f
		if f.nlink != n {
			out = append(out, fmt.Sprintf("file node id %d: stored nlink %d, %d directory entries refer to it", f.id, f.nlink, n))
		}
	}
	sort.Strings(out)
	return out
}
