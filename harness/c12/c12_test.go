// C12 - FailFS is transparent unless told to fail, and an injected failure has no effect.
package c12

import (
	"errors"
	"fmt"
	"io/fs"
	"os"
	"sort"
	"strings"
	"testing"

	"github.com/avfs/avfs"
	"github.com/avfs/avfs/vfs/failfs"
	"pgregory.net/rapid"

	"verif/harness/internal/fsx"
	"verif/harness/internal/gen"
	"verif/harness/internal/vt"
	"verif/harness/internal/world"
)

// Case is a replayable C12 case.
type Case struct {
	FS   string   `json:"fs"`
	View string   `json:"view,omitempty"` // ops go through failfs.Sub(view)
	Plan string   `json:"plan"`           // none | ok | readonly | fault
	Fn   int      `json:"fn,omitempty"`
	K    int      `json:"k,omitempty"`
	Ops  []fsx.Op `json:"ops"`
}

// the primitive each call consults first
var opFn = map[string]avfs.FnVFS{
	"Chdir": avfs.FnChdir, "Chmod": avfs.FnChmod, "Chown": avfs.FnChown, "Chtimes": avfs.FnChtimes, "CreateTemp": avfs.FnCreateTemp,
	"EvalSymlinks": avfs.FnEvalSymlinks, "Lchown": avfs.FnLchown, "Link": avfs.FnLink, "Lstat": avfs.FnLstat, "Mkdir": avfs.FnMkdir,
	"MkdirAll": avfs.FnMkdirAll, "MkdirTemp": avfs.FnMkdirTemp, "Open": avfs.FnOpenFile, "Create": avfs.FnOpenFile, "ReadDir": avfs.FnReadDir,
	"ReadFile": avfs.FnReadFile, "Readlink": avfs.FnReadlink, "Remove": avfs.FnRemove, "RemoveAll": avfs.FnRemoveAll, "Rename": avfs.FnRename,
	"Stat": avfs.FnStat, "Symlink": avfs.FnSymlink, "Truncate": avfs.FnTruncate, "WriteFile": avfs.FnOpenFile,
	"FRead": avfs.FnFileRead, "FReadAt": avfs.FnFileReadAt, "FWrite": avfs.FnFileWrite, "FWriteString": avfs.FnFileWrite, "FWriteAt": avfs.FnFileWriteAt,
	"FSeek": avfs.FnFileSeek, "FTruncate": avfs.FnFileTruncate, "FStat": avfs.FnFileStat, "FSync": avfs.FnFileSync, "FChmod": avfs.FnFileChmod,
	"FChown": avfs.FnFileChown, "FChdir": avfs.FnFileChdir, "FClose": avfs.FnFileClose, "FReadDir": avfs.FnFileReadDir, "FReaddirnames": avfs.FnFileReaddirnames,
}

// composites: built on other primitives; a fault inside them only has to surface as an error
var composite = map[string]bool{"Create": true, "WriteFile": true, "ReadFile": true, "ReadDir": true, "Glob": true, "MkdirTemp": true, "WalkDir": true, "CreateTemp": true, "Mtime": true, "RenameTemp": true}

type sentinelErr struct {
	s string
	// notExist: the injected error also answers errors.Is(err, fs.ErrNotExist) - an error of the kind the
	// composites themselves branch on - while the call in flight is one of those in notExistFor
	notExist func() bool
}

func (e *sentinelErr) Error() string { return e.s }

func (e *sentinelErr) Is(target error) bool {
	return target == fs.ErrNotExist && e.notExist != nil && e.notExist()
}

// composites that must report a failed primitive whatever kind of error it failed with (RemoveAll and
// MkdirAll, which by contract treat "does not exist" as nothing to do, are not among them)
var notExistFor = map[string]bool{"MkdirTemp": true, "CreateTemp": true, "ReadFile": true, "WriteFile": true, "ReadDir": true, "Open": true, "Create": true, "Stat": true, "Mkdir": true}

// builtOn is the model of "the primitives a composite is built on" (package os and the
// library's documentation: ReadFile opens, reads and closes a file, ...). A successful
// composite call must have put each of them to the failure function at least once -
// otherwise a plan that fails that primitive can never make the composite fail.
var builtOn = map[string][]avfs.FnVFS{
	"Create":    {avfs.FnOpenFile},
	"WriteFile": {avfs.FnOpenFile, avfs.FnFileWrite, avfs.FnFileClose},
	"ReadFile":  {avfs.FnOpenFile, avfs.FnFileRead, avfs.FnFileClose},
	"ReadDir":   {avfs.FnOpenFile, avfs.FnFileReadDir, avfs.FnFileClose},
	"MkdirTemp": {avfs.FnMkdir},
}

type inst struct {
	kind    string
	cur     string   // kind of the op in flight
	a, b    avfs.VFS // base behind FailFS, twin base
	ff      *failfs.FailFS
	through fsx.FS // failfs or failfs.Sub(view)
	cmp     fsx.FS // twin or twin.Sub(view)
	rf, rb  *fsx.Runner
	counts  map[avfs.FnVFS]int
	fn      avfs.FnVFS
	k       int
	fired   bool
	sent    *sentinelErr
	roots   []string
}

func newInst(cs Case) (*inst, error) {
	a, _ := world.NewVFS(cs.FS)
	b, _ := world.NewVFS(cs.FS)
	for _, v := range []avfs.VFS{a, b} {
		_ = v.SetUMask(0o022)
		_ = v.Mkdir("/w", 0o755)
		_ = v.Mkdir("/w/v", 0o755)
		_ = v.Chdir("/")
	}
	in := &inst{kind: cs.FS, a: a, b: b, counts: map[avfs.FnVFS]int{}, fn: avfs.FnVFS(cs.Fn), k: cs.K, roots: []string{"/"}}
	if cs.FS == "OrefaFS" {
		in.roots = []string{"/a", "/b", "/c", "/home", "/root", "/tmp", "/w"}
	}
	in.ff = failfs.New(a)
	in.sent = &sentinelErr{s: fmt.Sprintf("verif-sentinel-%d-%d", cs.Fn, cs.K)}
	if (cs.Fn+cs.K)%2 == 0 {
		in.sent.notExist = func() bool { return notExistFor[in.cur] }
	}
	switch cs.Plan {
	case "none":
	case "readonly":
		_ = in.ff.SetFailFunc(failfs.ReadOnlyFunc)
	default: // ok, fault: a counting function
		_ = in.ff.SetFailFunc(func(_ avfs.VFSBase, fn avfs.FnVFS, _ *failfs.FailParam) error {
			in.counts[fn]++
			if cs.Plan == "fault" && fn == in.fn && in.counts[fn] == in.k {
				in.fired = true
				return in.sent
			}
			return nil
		})
	}
	in.through, in.cmp = in.ff, b
	if cs.View != "" {
		s1, err := in.ff.Sub(cs.View)
		if err != nil {
			return nil, err
		}
		s2, err := b.Sub(cs.View)
		if err != nil {
			return nil, err
		}
		in.through, in.cmp = s1, s2
	}
	in.rf, in.rb = fsx.NewRunner(in.through), fsx.NewRunner(in.cmp)
	in.rf.NoOwner, in.rb.NoOwner = cs.FS == "OrefaFS", cs.FS == "OrefaFS"
	return in, nil
}

func (in *inst) snap(v avfs.VFS, full bool) fsx.Snap {
	return fsx.Snapshot(v, fsx.SnapOpts{Roots: in.roots, Full: full, NoOwner: in.kind == "OrefaFS"})
}

// step returns (deviation, stop): stop ends the case without a deviation
// (after a fault inside a composite the two bases can no longer be paired).
func (in *inst) step(c *vt.Ctx, cs Case, o fsx.Op) (*vt.Deviation, bool) {
	c.Eval(1)
	mk := func(clause, detail string) *vt.Deviation {
		d := vt.Dev("prop", "C12", "fs", in.kind, "plan", cs.Plan, "op", o.K, "clause", clause)
		if cs.Plan == "fault" {
			d.Fields["fn"] = in.fn.String()
		}
		d.Detail = fmt.Sprintf("FailFS(%s) plan=%s %s: %s", in.kind, cs.Plan, o, detail)
		return d
	}
	in.cur = o.K
	before := in.snap(in.a, true)
	firedBefore := in.fired
	cBefore := in.counts[opFn[o.K]]
	inner := map[avfs.FnVFS]int{}
	for _, fn := range builtOn[o.K] {
		inner[fn] = in.counts[fn]
	}
	out := in.rf.Do(o)
	if out.Err == "PANIC" && out.Val != "nil-handle" {
		return mk("panic", out.Note), false
	}
	if cs.Plan == "readonly" {
		after := in.snap(in.a, true)
		if p, f, l, r, same := fsx.Diff(before, after); !same {
			return mk("readonly-changed", fmt.Sprintf("with ReadOnlyFunc the base changed at %s (%s): %q -> %q", p, f, l, r)), false
		}
		return nil, false
	}
	if in.fired && !firedBefore {
		// the fault was injected during this call
		want := "other:" + in.sent.s
		if opFn[o.K] == in.fn && !(composite[o.K] && o.K != "ReadFile" && o.K != "ReadDir" && o.K != "MkdirTemp" && o.K != "CreateTemp") {
			// the failed invocation is the top-level call itself
			if out.Err != want {
				return mk("fault-not-returned", fmt.Sprintf("returned %s, the failure function returned %q", out, in.sent.s)), false
			}
			after := in.snap(in.a, true)
			if p, f, l, r, same := fsx.Diff(before, after); !same {
				return mk("fault-had-effect", fmt.Sprintf("the refused call changed the base at %s (%s): %q -> %q", p, f, l, r)), false
			}
			if (o.K == "FReadDir" || o.K == "FReaddirnames") && o.N > 0 {
				in.rb.MarkPartial(o.H) // the refused call was a partial read: later reads are compared by count on both sides
			}
			// a refused open leaves no handle: the twin keeps a nil handle too
			if o.K == "Open" || o.K == "Create" || o.K == "CreateTemp" {
				in.rb.Handles[o.H] = (*os.File)(nil)
				in.rb.ClearPartial(o.H)
			}
			return nil, false
		}
		// inside a composite (or on a handle method reached through one)
		if out.Err == "ok" || out.Err == "EOF" {
			return mk("fault-swallowed", fmt.Sprintf("primitive %s was made to fail inside this call, which returned %s", in.fn, out)), false
		}
		c.Label("fault-in-composite:" + o.K)
		return nil, true
	}
	// no fault during this call: transparent
	ref := in.rb.Do(o)
	if (cs.Plan == "ok" || cs.Plan == "fault") && out.Err == "ok" {
		for _, fn := range builtOn[o.K] {
			if in.counts[fn] == inner[fn] {
				return mk("primitive-not-consulted", fmt.Sprintf("the call succeeded without the failure function being asked about %s, a primitive it is built on: no failure of %s can make it fail", fn, fn)), false
			}
		}
		if len(builtOn[o.K]) > 0 {
			c.Label("composite-consults-primitives:" + o.K)
		}
	}
	if (o.K == "CreateTemp" || o.K == "MkdirTemp") && out.Err == "ok" {
		// random names: give both the same canonical name right away
		return nil, true
	}
	if out.String() != ref.String() {
		return mk("not-transparent", fmt.Sprintf("returned %s, the base returns %s", out, ref)), false
	}
	if fn, ok := opFn[o.K]; ok && (cs.Plan == "ok" || cs.Plan == "fault") && in.counts[fn] == cBefore && !nilHandleOp(in.rf, o) {
		return mk("not-consulted", fmt.Sprintf("the failure function was not asked about %s", fn)), false
	}
	if p, f, l, r, same := fsx.Diff(in.snap(in.a, false), in.snap(in.b, false)); !same {
		return mk("effect", fmt.Sprintf("base behind FailFS and twin differ at %s (%s): %q vs %q", p, f, l, r)), false
	}
	return nil, false
}

func nilHandleOp(r *fsx.Runner, o fsx.Op) bool {
	if !strings.HasPrefix(o.K, "F") {
		return false
	}
	h := r.Handles[o.H]
	if h == nil {
		return true
	}
	f, ok := h.(*failfs.FailFile)
	return ok && f == nil
}

// parity: with no failure installed (or one that lets everything through) the path helpers and
// accessors of the FailFS answer as the base does.
func (in *inst) parity(cs Case) *vt.Deviation {
	a, ok1 := in.through.(avfs.VFS)
	b, ok2 := in.cmp.(avfs.VFS)
	if !ok1 || !ok2 || cs.Plan == "fault" && in.fired || cs.Plan == "readonly" {
		return nil
	}
	if diff := fsx.LexicalParity(a, b, []string{"", ".", "..", "a", "/w/a", "../x", "/", "a/b/../c", "[a", "*"}); diff != "" {
		d := vt.Dev("prop", "C12", "fs", in.kind, "plan", cs.Plan, "op", "helpers", "clause", "not-transparent")
		d.Detail = fmt.Sprintf("FailFS(%s) plan=%s %s", in.kind, cs.Plan, diff)
		return d
	}
	return nil
}

func (in *inst) close() {
	in.rf.CloseAll()
	in.rb.CloseAll()
}

func run(c *vt.Ctx, cs Case) (*vt.Deviation, map[avfs.FnVFS]int, bool) {
	in, err := newInst(cs)
	if err != nil {
		var se *sentinelErr
		if errors.As(err, &se) {
			// the planned fault hit the Sub call that creates the view: refused with
			// exactly the injected error, which is what the property asks
			return nil, nil, true
		}
		c.Inconclusive("instance: " + err.Error())
		return nil, nil, false
	}
	defer in.close()
	for _, o := range cs.Ops {
		dev, stop := in.step(c, cs, o)
		if dev != nil {
			return dev, in.counts, in.fired
		}
		if stop {
			return nil, in.counts, in.fired
		}
	}
	if cs.Plan == "none" || cs.Plan == "ok" {
		if dev := in.parity(cs); dev != nil {
			return dev, in.counts, in.fired
		}
	}
	return nil, in.counts, in.fired
}

// allPlans runs the history under the no-fault plans, counts the invocations
// of every primitive, and then under every single-fault plan (F, k).
func allPlans(c *vt.Ctx, kind, view string, ops []fsx.Op) (*vt.Deviation, Case, int) {
	plans := 0
	for _, pl := range []string{"none", "readonly"} {
		cs := Case{FS: kind, View: view, Plan: pl, Ops: ops}
		plans++
		if dev, _, _ := run(c, cs); dev != nil {
			return dev, cs, plans
		}
	}
	cs := Case{FS: kind, View: view, Plan: "ok", Ops: ops}
	dev, counts, _ := run(c, cs)
	plans++
	if dev != nil {
		return dev, cs, plans
	}
	var fns []int
	for fn := range counts {
		fns = append(fns, int(fn))
	}
	sort.Ints(fns)
	for _, fn := range fns {
		for k := 1; k <= counts[avfs.FnVFS(fn)]; k++ {
			cs := Case{FS: kind, View: view, Plan: "fault", Fn: fn, K: k, Ops: ops}
			plans++
			dev, _, fired := run(c, cs)
			if dev != nil {
				if c.KnownFor(dev) != nil {
					c.Report(dev, nil) // counted; the remaining plans of this history still run
					continue
				}
				return dev, cs, plans
			}
			if fired {
				c.NonTrivial(vt.Hash64(kind, view, fmt.Sprint(fn, k), fmt.Sprint(ops)))
			}
		}
	}
	return nil, Case{}, plans
}

var _ = errors.Is

func TestCheck(t *testing.T) {
	c := vt.New(t, "C12")
	defer c.Finish()
	for _, f := range c.ReplayFiles() {
		var cs Case
		if err := vt.LoadReplay(f, &cs); err != nil {
			c.Inconclusive("replay " + f + ": " + err.Error())
			continue
		}
		if dev, _, _ := run(c, cs); dev != nil {
			if k := c.KnownFor(dev); k != nil {
				c.WitnessLive(k.ID)
			}
			c.Report(dev, cs)
		}
	}
	if c.Replay != "" {
		return
	}
	totalPlans := 0
	for _, kind := range []string{"MemFS", "OrefaFS"} {
		kind := kind
		mem := kind == "MemFS"
		views := []string{""}
		if mem {
			views = append(views, "/w/v")
		}
		c.Rapid("plans-"+kind, c.Pick(600, 12000), func(t *rapid.T) *vt.Failure {
			view := rapid.SampledFrom(views).Draw(t, "view")
			cfg := gen.Config{Symlinks: mem, Root: false, Base: "/w", NoTemp: false, Kinds: append(append([]string{}, gen.AllKinds...), "Glob")}
			if view != "" {
				cfg.Base = ""
			}
			var ops []fsx.Op
			opened := false
			for n := rapid.IntRange(1, 10).Draw(t, "n"); n > 0; n-- {
				if opened && rapid.IntRange(0, 2).Draw(t, "handle") == 0 {
					k := rapid.SampledFrom([]string{"FRead", "FWrite", "FSeek", "FStat", "FSync", "FTruncate", "FChmod", "FReadDir", "FClose", "FReadAt", "FWriteAt"}).Draw(t, "hk")
					// (empty buffers and zero sizes included: a call that has nothing to do is still a call)
					ops = append(ops, fsx.Op{K: k, H: 1, N: rapid.SampledFrom([]int{4, 0, 1}).Draw(t, "hn"), Data: rapid.SampledFrom([]string{"z", ""}).Draw(t, "hd"),
						Size: rapid.SampledFrom([]int64{2, 0}).Draw(t, "hs"), Perm: 0o600, Off: rapid.SampledFrom([]int64{1, 0, 9}).Draw(t, "ho")})
					continue
				}
				if rapid.IntRange(0, 4).Draw(t, "keep") == 0 {
					p := rapid.SampledFrom(cfg.Paths()).Draw(t, "hp")
					ops = append(ops, fsx.Op{K: "Open", P: p, Flag: os.O_RDWR | os.O_CREATE, Perm: 0o644, H: 1})
					opened = true
					continue
				}
				ops = append(ops, cfg.Draw(t)...)
			}
			for _, o := range ops {
				c.Label("op:" + o.K)
			}
			dev, cs, n := allPlans(c, kind, view, ops)
			totalPlans += n
			if dev != nil {
				return &vt.Failure{Dev: dev, Replay: cs}
			}
			c.Sample("plans-"+kind, map[string]any{"fs": kind, "view": view, "ops": len(ops), "plans": n})
			return nil
		})
	}
	c.Extra("plans_run", int64(totalPlans))
	c.Extra("exhaustive_per_history", "for every generated history: plans none, ReadOnlyFunc, counting OkFunc, and every (primitive F, k <= number of invocations of F in that history)")
}
