package c13

import (
	"sync"
	"testing"

	"verif/harness/internal/vt"
)

// FuzzLexical is the coverage-guided continuation of the bounded-exhaustive and random
// tiers for inputs longer than those reach (thorough tier only; bin/check starts it with
// -test.fuzz). The oracle is the same differential: every lexical function, on both OS
// types and both file systems, against Go's path/filepath retargeted to that OS, and the
// PathIterator laws. A deviation that is not a listed known finding is written as an
// ordinary replay case (vt.Report) and fails the target, which makes the engine minimise it.
var (
	fuzzOnce sync.Once
	fuzzCtx  *vt.Ctx
	fuzzSuts []*sut
)

func FuzzLexical(f *testing.F) {
	seeds := [][3]string{
		{`C:\a\..\b`, `c:`, `..\x`}, {`\\host\share\a`, `\\host\share`, `b`}, {"../../a/./b//", "/", ".."},
		{`[a-z]*\x`, "axyz", ""}, {`\\?\C:\x`, `\\.\pipe`, `\??\c:`}, {"a/b/../../../c", "a/b", "/c"},
		{`C:a`, `C:`, `a`}, {`//a//b//`, `/a/b`, `/a/b/c/d`}, {"[]a]", "]", "[^]"}, {`\a\*?`, `\a\b`, `é/ü`},
		{"", ".", ".."}, {`c:\`, `C:/x/../y`, `d:\y`}, {"a\x00b", "/\x00", "x"},
	}
	for i, s := range seeds {
		for fn := 0; fn < 14; fn++ {
			f.Add(uint8(fn), uint8(i%4), s[0], s[1], s[2])
		}
	}
	f.Fuzz(func(t *testing.T, fnIdx, sutIdx uint8, a, b, c string) {
		fuzzOnce.Do(func() {
			fuzzCtx = vt.New(t, "C13")
			fuzzSuts = newSuts(fuzzCtx)
		})
		if len(a)+len(b)+len(c) > 200 {
			return // the functions are linear; longer inputs add time, not behaviour
		}
		x := fuzzSuts[int(sutIdx)%len(fuzzSuts)]
		fns := append(append([]string{}, oneArg...), twoArg...)
		fns = append(fns, "Join3", "Iter")
		fn := fns[int(fnIdx)%len(fns)]
		var fail *vt.Failure
		switch fn {
		case "Join", "Rel", "Match":
			fail = check(fuzzCtx, x, fn, []string{a, b})
		case "Join3":
			fail = check(fuzzCtx, x, "Join", []string{a, b, c})
		case "Iter":
			fail = iterFailure(fuzzCtx, x, a)
		default:
			fail = check(fuzzCtx, x, fn, []string{a})
		}
		if fail == nil || fuzzCtx.KnownFor(fail.Dev) != nil {
			return
		}
		fuzzCtx.Report(fail.Dev, fail.Replay)
		t.Fatalf("VERIF-FUZZ-VIOLATION sig=%s detail=%s", fail.Dev.Sig(), fail.Dev.Detail)
	})
}
