package c13

import (
	"fmt"
	"strings"

	"github.com/avfs/avfs"
	"github.com/avfs/avfs/vfs/memfs"
	"github.com/avfs/avfs/vfs/orefafs"

	"verif/harness/internal/vt"
)

func checkIter(c *vt.Ctx, x *sut, s string) {
	if f := iterFailure(c, x, s); f != nil {
		c.Report(f.Dev, f.Replay)
	}
}

// iterFailure checks the PathIterator clause of C13 on the absolute path made
// from s: parts are exactly the separator-delimited non-empty components in
// order, Left+Part+Right reassembles the path at every position, and splicing
// a replacement yields the Join of the pieces.
func iterFailure(c *vt.Ctx, x *sut, s string) (fail *vt.Failure) {
	// A PathIterator is specified over an absolute, cleaned path (this is what
	// every caller in the library passes: the result of Abs).
	root := "/"
	if x.r.os == "windows" {
		root = `C:\`
	}
	abs := x.r.Join(root, s) // reference-side construction of a clean absolute path
	if !x.r.IsAbs(abs) {
		return nil
	}
	vol := x.r.Volume(abs)
	sep := string(x.r.sep)
	var wantParts []string
	for _, p := range strings.Split(abs[len(vol):], sep) {
		if p != "" {
			wantParts = append(wantParts, p)
		}
	}
	c.Eval(1)
	mk := func(detail string) *vt.Failure {
		d := vt.Dev("fn", "PathIterator", "os", x.r.os, "class", classifyIter(x, abs))
		d.Detail = fmt.Sprintf("%s/%s PathIterator(%q): %s", x.name, x.r.os, abs, detail)
		return &vt.Failure{Dev: d, Replay: Case{Kind: "iter", Fn: "Iter", OS: x.r.os, FS: x.name, Args: []string{s}}}
	}
	defer func() {
		if p := recover(); p != nil {
			d := vt.Dev("fn", "PathIterator", "os", x.r.os, "class", "panic")
			d.Detail = fmt.Sprintf("%s/%s PathIterator(%q) panicked: %v", x.name, x.r.os, abs, p)
			fail = &vt.Failure{Dev: d, Replay: Case{Kind: "iter", Fn: "Iter", OS: x.r.os, FS: x.name, Args: []string{s}}}
		}
	}()
	var got []string
	type iter interface {
		Next() bool
		Part() string
		Left() string
		Right() string
		Path() string
		LeftPart() string
		IsLast() bool
		ReplacePart(string) bool
		Start() int
		End() int
	}
	var newIter func(p string) iter
	switch v := x.vfs.(type) {
	case *memfs.MemFS:
		newIter = func(p string) iter { return avfs.NewPathIterator[*memfs.MemFS](v, p) }
	case *orefafs.OrefaFS:
		newIter = func(p string) iter { return avfs.NewPathIterator[*orefafs.OrefaFS](v, p) }
	}
	// An absolute path that is not clean: the parts are still exactly the separator-delimited
	// pieces after the volume and the first separator (an empty piece between two adjacent
	// separators is a part; nothing follows a trailing separator), and they reassemble the path.
	raw := root + s
	if rv := x.r.Volume(raw); raw != abs && x.r.IsAbs(raw) && len(rv) == volLen(x, raw) && len(raw) > len(rv) {
		rawParts := strings.Split(raw[len(rv)+1:], sep)
		if n := len(rawParts); n > 0 && rawParts[n-1] == "" {
			rawParts = rawParts[:n-1]
		}
		var gotRaw []string
		pi := newIter(raw)
		for i := 0; pi.Next(); i++ {
			if i > len(raw)+2 {
				return mk(fmt.Sprintf("iteration over %q does not terminate", raw))
			}
			gotRaw = append(gotRaw, pi.Part())
			if re := pi.Left() + pi.Part() + pi.Right(); re != raw || pi.Path() != raw {
				return mk(fmt.Sprintf("over %q: Left+Part+Right = %q, Path = %q", raw, re, pi.Path()))
			}
		}
		if strings.Join(gotRaw, "\x00") != strings.Join(rawParts, "\x00") || len(gotRaw) != len(rawParts) {
			return mk(fmt.Sprintf("over %q: parts %q, want %q", raw, gotRaw, rawParts))
		}
		c.Label("iter:unclean")
	}
	pi := newIter(abs)
	for i := 0; pi.Next(); i++ {
		if i > len(abs)+2 {
			return mk("iteration does not terminate")
		}
		got = append(got, pi.Part())
		if re := pi.Left() + pi.Part() + pi.Right(); re != pi.Path() || pi.Path() != abs {
			return mk(fmt.Sprintf("Left+Part+Right = %q, Path = %q", re, pi.Path()))
		}
		if pi.IsLast() != (i == len(wantParts)-1) {
			return mk(fmt.Sprintf("IsLast()=%v at part %d of %d", pi.IsLast(), i, len(wantParts)))
		}
	}
	if strings.Join(got, "\x00") != strings.Join(wantParts, "\x00") || len(got) != len(wantParts) {
		return mk(fmt.Sprintf("parts %q, want %q", got, wantParts))
	}
	// splice: at every position, replace by a relative and by an absolute piece
	for pos := range wantParts {
		for _, repl := range []string{"x", x.r.Join("y", "z"), x.r.Join("..", "w"), root + "r", root} {
			pi := newIter(abs)
			for i := 0; i <= pos; i++ {
				pi.Next()
			}
			left, right := pi.Left(), pi.Right()
			var want string
			if x.r.IsAbs(repl) {
				want = x.r.Join(repl, right)
			} else {
				want = x.r.Join(left, repl, right)
			}
			reset := pi.ReplacePart(repl)
			if pi.Path() != want {
				return mk(fmt.Sprintf("ReplacePart(%q) at part %d gives %q, want Join = %q", repl, pos, pi.Path(), want))
			}
			// a reset must be reported exactly when the prefix before the part changed
			prefixChanged := len(want) < len(left) || want[:len(left)] != left
			if prefixChanged && !reset {
				return mk(fmt.Sprintf("ReplacePart(%q) at part %d changed the prefix (%q -> %q) without reporting a reset", repl, pos, left, want))
			}
			// after the splice, iteration continues with the first component of the replacement
			if !reset {
				rest := strings.Split(strings.TrimPrefix(want[len(left):], sep), sep)
				if pi.Next() {
					if len(rest) == 0 || pi.Part() != rest[0] {
						return mk(fmt.Sprintf("after ReplacePart(%q) at part %d next part is %q, want %q", repl, pos, pi.Part(), rest))
					}
				}
			}
		}
	}
	return nil
}

func classifyIter(x *sut, abs string) string {
	if x.r.os == "windows" && volLen(x, abs) != len(x.r.Volume(abs)) {
		return "vol"
	}
	return "other"
}
