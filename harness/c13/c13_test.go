// C13 - lexical path functions equal path/filepath of the emulated OS.
package c13

import (
	"fmt"
	"os"
	"path/filepath"
	"strings"
	"sync/atomic"
	"testing"
	"time"

	"github.com/avfs/avfs"
	"github.com/avfs/avfs/vfs/memfs"
	"github.com/avfs/avfs/vfs/orefafs"
	"pgregory.net/rapid"

	"verif/harness/internal/vt"
	"verif/harness/internal/winpath"
	"verif/harness/internal/winpathold"
)

// alphabet of the property statement.
var alphabet = []string{"a", "C", ".", "/", `\`, ":", "?", "*", "[", "]", "-", "^", "é"}

// ref is the reference implementation for one OS type.
type ref struct {
	os        string
	sep       byte
	Clean     func(string) string
	Join      func(...string) string
	Split     func(string) (string, string)
	Dir       func(string) string
	Base      func(string) string
	IsAbs     func(string) bool
	Rel       func(string, string) (string, error)
	FromSlash func(string) string
	ToSlash   func(string) string
	Volume    func(string) string
	Match     func(string, string) (bool, error)
}

var refLinux = &ref{"linux", '/', filepath.Clean, filepath.Join, filepath.Split, filepath.Dir, filepath.Base, filepath.IsAbs,
	filepath.Rel, filepath.FromSlash, filepath.ToSlash, filepath.VolumeName, filepath.Match}
var refWindows = &ref{"windows", '\\', winpath.Clean, winpath.Join, winpath.Split, winpath.Dir, winpath.Base, winpath.IsAbs,
	winpath.Rel, winpath.FromSlash, winpath.ToSlash, winpath.VolumeName, winpath.Match}

// refWindowsOldVol is the same reference with the volume-name parser path/filepath had before
// Go 1.20 (the one avfs was ported from): the model of the known finding C13-win-volume-parser.
// A deviation from refWindows belongs to that finding exactly when avfs returns what this
// second reference returns.
var refWindowsOldVol = &ref{"windows", '\\', winpathold.Clean, winpathold.Join, winpathold.Split, winpathold.Dir, winpathold.Base, winpathold.IsAbs,
	winpathold.Rel, winpathold.FromSlash, winpathold.ToSlash, winpathold.VolumeName, winpathold.Match}

type sut struct {
	name string
	vfs  avfs.VFS
	r    *ref
	cwd  string
}

func newSuts(c *vt.Ctx) []*sut {
	var s []*sut
	ml := memfs.NewWithOptions(&memfs.Options{OSType: avfs.OsLinux})
	mw := memfs.NewWithOptions(&memfs.Options{OSType: avfs.OsWindows})
	ol := orefafs.NewWithOptions(&orefafs.Options{OSType: avfs.OsLinux})
	ow := orefafs.NewWithOptions(&orefafs.Options{OSType: avfs.OsWindows})
	_ = ml.Chdir("/tmp")
	_ = ol.Chdir("/tmp")
	_ = mw.MkdirAll(`C:\Cwd\a`, 0o777)
	_ = mw.Chdir(`C:\Cwd\a`)
	_ = ow.MkdirAll(`C:\Cwd\a`, 0o777)
	_ = ow.Chdir(`C:\Cwd\a`)
	s = append(s, &sut{"MemFS", ml, refLinux, "/tmp"}, &sut{"MemFS", mw, refWindows, `C:\Cwd\a`},
		&sut{"OrefaFS", ol, refLinux, "/tmp"}, &sut{"OrefaFS", ow, refWindows, `C:\Cwd\a`})
	for _, x := range s {
		want := avfs.OsLinux
		if x.r.os == "windows" {
			want = avfs.OsWindows
		}
		if x.vfs.OSType() != want || x.vfs.PathSeparator() != x.r.sep {
			c.Report(vt.Dev("fn", "construct", "os", x.r.os, "fs", x.name, "class", "ostype-not-honoured"), map[string]any{"kind": "construct"})
		}
		if d, _ := x.vfs.Getwd(); d != x.cwd {
			c.Inconclusive(fmt.Sprintf("harness: cwd of %s/%s is %q", x.name, x.r.os, d))
		}
	}
	return s
}

// Case is a replayable C13 case.
type Case struct {
	Kind string   `json:"kind"`
	Fn   string   `json:"fn"`
	OS   string   `json:"os"`
	FS   string   `json:"fs"`
	Args []string `json:"args"`
}

func errKind(e error) string {
	if e == nil {
		return "nil"
	}
	if e == filepath.ErrBadPattern {
		return "badpattern"
	}
	if strings.Contains(e.Error(), "syntax error in pattern") {
		return "badpattern"
	}
	return "err"
}

// call runs fn with args on the sut and on the reference and returns both
// renderings; panics of the code under test are captured.
func call(x *sut, fn string, a []string) (got, want string) {
	r := x.r
	v := x.vfs
	arg := func(i int) string {
		if i < len(a) {
			return a[i]
		}
		return ""
	}
	func() {
		defer func() {
			if p := recover(); p != nil {
				got = fmt.Sprintf("PANIC: %v", p)
			}
		}()
		switch fn {
		case "Clean":
			got = v.Clean(arg(0))
		case "Join":
			got = v.Join(a...)
		case "Split":
			d, f := v.Split(arg(0))
			got = d + "\x00" + f
		case "Dir":
			got = v.Dir(arg(0))
		case "Base":
			got = v.Base(arg(0))
		case "IsAbs":
			got = fmt.Sprint(v.IsAbs(arg(0)))
		case "Rel":
			s, e := v.Rel(arg(0), arg(1))
			got = s + "\x00" + errKind(e)
		case "Abs":
			s, e := v.Abs(arg(0))
			got = s + "\x00" + errKind(e)
		case "FromSlash":
			got = v.FromSlash(arg(0))
		case "ToSlash":
			got = v.ToSlash(arg(0))
		case "VolumeName":
			got = avfs.VolumeName(v, arg(0))
		case "Match":
			m, e := v.Match(arg(0), arg(1))
			got = fmt.Sprint(m) + "\x00" + errKind(e)
		}
	}()
	return got, wantOf(r, x, fn, a)
}

// wantOf renders what reference r returns.
func wantOf(r *ref, x *sut, fn string, a []string) (want string) {
	arg := func(i int) string {
		if i < len(a) {
			return a[i]
		}
		return ""
	}
	switch fn {
	case "Clean":
		want = r.Clean(arg(0))
	case "Join":
		want = r.Join(a...)
	case "Split":
		d, f := r.Split(arg(0))
		want = d + "\x00" + f
	case "Dir":
		want = r.Dir(arg(0))
	case "Base":
		want = r.Base(arg(0))
	case "IsAbs":
		want = fmt.Sprint(r.IsAbs(arg(0)))
	case "Rel":
		if refRelLoops(r, arg(0), arg(1)) {
			// Go's own filepath.Rel never returns here (checked up to go1.26.8): the two paths are
			// one directory spelt `\\host\share` and `\\host\share\`; the early "same path" test
			// compares the cleaned spellings, which differ, and the element loop has no exit
			// when both remainders run out together. The reference is not called; what the
			// documentation of Rel promises for equal directories is ".".
			want = ".\x00nil"
			break
		}
		s, e := r.Rel(arg(0), arg(1))
		want = s + "\x00" + errKind(e)
	case "Abs":
		if r.IsAbs(arg(0)) {
			want = r.Clean(arg(0)) + "\x00nil"
		} else {
			want = r.Join(x.cwd, arg(0)) + "\x00nil"
		}
	case "FromSlash":
		want = r.FromSlash(arg(0))
	case "ToSlash":
		want = r.ToSlash(arg(0))
	case "VolumeName":
		want = r.Volume(arg(0))
	case "Match":
		m, e := r.Match(arg(0), arg(1))
		want = fmt.Sprint(m) + "\x00" + errKind(e)
	}
	return want
}

// refRelLoops: the inputs on which Go's filepath.Rel (Windows) does not terminate.
func refRelLoops(r *ref, a, b string) bool {
	if r.os != "windows" {
		return false
	}
	bv, tv := r.Volume(a), r.Volume(b)
	ca, cb := r.Clean(a), r.Clean(b)
	if len(bv) > len(ca) || len(tv) > len(cb) || strings.EqualFold(ca, cb) {
		return false
	}
	base, targ := ca[len(bv):], cb[len(tv):]
	if base == "." {
		base = ""
	} else if base == "" && len(bv) > 2 {
		base = string(r.sep)
	}
	return strings.EqualFold(bv, tv) && strings.EqualFold(base, targ)
}

// absComparable: on Windows the real Abs asks the OS (GetFullPathName), which
// the reference cannot reproduce for drive-relative and rooted-without-drive
// paths; those inputs are outside the comparison (sound restriction).
func absComparable(x *sut, p string) bool {
	if x.r.os != "windows" {
		return true
	}
	if x.r.IsAbs(p) {
		return true
	}
	if p == "" || strings.ContainsAny(p[:1], `/\`) || strings.Contains(p, ":") {
		return false
	}
	return true
}

var oneArg = []string{"Clean", "Split", "Dir", "Base", "IsAbs", "Abs", "FromSlash", "ToSlash", "VolumeName"}
var twoArg = []string{"Join", "Rel", "Match"}

// volLen is avfs's own idea of the volume-name length of s.
func volLen(x *sut, s string) (n int) {
	defer func() {
		if recover() != nil {
			n = -1
		}
	}()
	return avfs.VolumeNameLen(x.vfs, s)
}

// classify attributes a deviation to a root-cause class by predicates on the
// input (DESIGN.md C13 "Known-finding attribution").
func classify(x *sut, fn string, a []string, got, want string) string {
	if strings.HasPrefix(got, "PANIC") {
		return "panic"
	}
	if x.r.os != "windows" {
		return "linux"
	}
	// volume-name parser: avfs returns exactly what path/filepath returns with the old parser
	if !refRelLoops(refWindowsOldVol, a0(a), a1(a)) || fn != "Rel" {
		if got == wantOf(refWindowsOldVol, x, fn, a) {
			return "vol"
		}
	}
	return "other"
}

func a0(a []string) string {
	if len(a) > 0 {
		return a[0]
	}
	return ""
}

func a1(a []string) string {
	if len(a) > 1 {
		return a[1]
	}
	return ""
}

// probe is the call in flight; the watchdog reports it when it does not come back.
type probe struct {
	x     *sut
	fn    string
	a     []string
	since time.Time
}

var inFlight atomic.Pointer[probe]

// watchdog: the functions under test are pure string functions (microseconds). One that is
// still running after a minute is spinning ("never panic" is in the statement; "returns" is C07's,
// but a check that waits for ever decides nothing): reported as a violation, and the process ends.
func watchdog(c *vt.Ctx) {
	go func() {
		for {
			time.Sleep(2 * time.Second)
			if p := inFlight.Load(); p != nil && time.Since(p.since) > time.Minute {
				d := vt.Dev("fn", p.fn, "os", p.x.r.os, "class", "hang")
				d.Detail = fmt.Sprintf("%s/%s %s(%q) has not returned after a minute (it is spinning)", p.x.name, p.x.r.os, p.fn, p.a)
				c.Report(d, Case{Kind: "call", Fn: p.fn, OS: p.x.r.os, FS: p.x.name, Args: p.a})
				c.Finish()
				os.Exit(1)
			}
		}
	}()
}

func check(c *vt.Ctx, x *sut, fn string, a []string) *vt.Failure {
	if fn == "Abs" && !absComparable(x, a[0]) {
		c.Label("abs-not-comparable")
		return nil
	}
	inFlight.Store(&probe{x, fn, a, time.Now()})
	got, want := call(x, fn, a)
	inFlight.Store(nil)
	c.Eval(1)
	if got == want {
		return nil
	}
	cl := classify(x, fn, a, got, want)
	d := vt.Dev("fn", fn, "os", x.r.os, "class", cl)
	d.Detail = fmt.Sprintf("%s/%s %s(%q) = %q, reference %q", x.name, x.r.os, fn, a, got, want)
	return &vt.Failure{Dev: d, Replay: Case{Kind: "call", Fn: fn, OS: x.r.os, FS: x.name, Args: a}}
}

func nontrivial(a []string) bool {
	s := strings.Join(a, "\x00")
	hasSep := strings.ContainsAny(s, `/\`)
	other := strings.Contains(s, ".") || strings.Contains(s, ":") || strings.ContainsAny(s, "*?[]^-")
	return hasSep && other
}

func note(c *vt.Ctx, fn string, a []string) {
	if nontrivial(a) {
		c.NonTrivial(vt.Hash64(append([]string{fn}, a...)...))
	}
}

// enumStrings calls f for every string of at most maxLen alphabet symbols.
func enumStrings(maxLen int, f func(idx int, s string)) int {
	idx := 0
	var rec func(prefix string, n int)
	rec = func(prefix string, n int) {
		f(idx, prefix)
		idx++
		if n == maxLen {
			return
		}
		for _, a := range alphabet {
			rec(prefix+a, n+1)
		}
	}
	rec("", 0)
	return idx
}

func allStrings(maxLen int) []string {
	var r []string
	enumStrings(maxLen, func(_ int, s string) { r = append(r, s) })
	return r
}

func TestCheck(t *testing.T) {
	c := vt.New(t, "C13")
	defer c.Finish()
	suts := newSuts(c)
	watchdog(c)
	mem := suts[:2]
	find := func(fs, os string) *sut {
		for _, x := range suts {
			if x.name == fs && x.r.os == os {
				return x
			}
		}
		return nil
	}

	// 1. replay files
	for _, f := range c.ReplayFiles() {
		var cs Case
		if err := vt.LoadReplay(f, &cs); err != nil {
			c.Inconclusive("replay " + f + ": " + err.Error())
			continue
		}
		runReplay(c, find, cs)
	}
	if c.Replay != "" {
		return
	}

	// 2. bounded-exhaustive: one-argument functions
	l1 := c.Pick(5, 6)
	n := enumStrings(l1, func(idx int, s string) {
		if idx%c.NShards != c.Shard {
			return
		}
		for _, x := range mem {
			for _, fn := range oneArg {
				if f := check(c, x, fn, []string{s}); f != nil {
					c.Report(f.Dev, f.Replay)
				}
			}
			checkIter(c, x, s)
		}
		note(c, "1", []string{s})
		if idx%9973 == 7 {
			c.Sample(fmt.Sprint("one", idx%3), map[string]any{"fn": "all one-argument functions", "arg": s})
		}
	})
	c.Extra("exhaustive_one_arg", fmt.Sprintf("all %d strings of <= %d symbols over %d symbols, x %d functions x 2 OS types", n, l1, len(alphabet), len(oneArg)))

	// 3. bounded-exhaustive: pairs
	l2 := c.Pick(2, 3)
	strs := allStrings(l2)
	pairs := 0
	for i, s1 := range strs {
		if i%c.NShards != c.Shard {
			continue
		}
		for _, s2 := range strs {
			pairs++
			for _, x := range mem {
				for _, fn := range twoArg {
					if f := check(c, x, fn, []string{s1, s2}); f != nil {
						c.Report(f.Dev, f.Replay)
					}
				}
			}
			note(c, "2", []string{s1, s2})
		}
	}
	c.Sample("pair", map[string]any{"fn": "Join, Rel, Match", "args": []string{strs[len(strs)/2], strs[len(strs)/3]}})
	c.Extra("exhaustive_two_arg", fmt.Sprintf("all pairs of the %d strings of <= %d symbols, x %d functions x 2 OS types", len(strs), l2, len(twoArg)))
	c.SetExhaustive(true)

	// 3b. bounded-exhaustive over structured atoms: whole separators runs, UNC and device prefixes,
	// drive-relative forms - every pair and triple as Join arguments, every pair for Rel and Match.
	// (Character-level enumeration cannot afford the length of `\\a\b`; element boundaries are
	// where Join has its special cases.)
	atoms := []string{"", `\`, `/`, `\\`, `//`, `a`, `a\`, `\a`, `/a`, `\\a`, `\\a\b`, `\\a\b\`, `//a/b`, `\\?\x`, `\\.\x`, `\??\x`, `C:`, `C:\`, `C:a`, `c:\a`, `.`, `..`, `..\a`, `a\..\b`, `a/`, `*`, `[a]`}
	ai := 0
	for _, a1 := range atoms {
		for _, a2 := range atoms {
			ai++
			if ai%c.NShards != c.Shard {
				continue
			}
			for _, x := range mem {
				for _, fn := range twoArg {
					if f := check(c, x, fn, []string{a1, a2}); f != nil {
						c.Report(f.Dev, f.Replay)
					}
				}
				for _, a3 := range atoms {
					if f := check(c, x, "Join", []string{a1, a2, a3}); f != nil {
						c.Report(f.Dev, f.Replay)
					}
				}
			}
			note(c, "atoms", []string{a1, a2})
		}
	}
	c.Extra("exhaustive_atoms", fmt.Sprintf("all pairs (Join, Rel, Match) and triples (Join) of %d structured atoms x 2 OS types", len(atoms)))

	// 4. random longer inputs (rapid), all four file systems
	tok := rapid.SampledFrom([]string{"a", "C", "bb", ".", "..", "/", `\`, "//", `\\`, ":", "C:", "c:", "?", "*", "[", "]", "-", "^", "é", `\\?\`, `\??\`, `\\.\`, "host", "share", "UNC", "NUL", "COM1", "[a-C]", "[^a]", `\*`, " "})
	str := rapid.Custom(func(t *rapid.T) string {
		n := rapid.IntRange(0, 12).Draw(t, "n")
		var sb strings.Builder
		for i := 0; i < n; i++ {
			sb.WriteString(tok.Draw(t, "tok"))
		}
		return sb.String()
	})
	c.Rapid("random", c.Pick(60000, 1500000), func(t *rapid.T) *vt.Failure {
		x := suts[rapid.IntRange(0, len(suts)-1).Draw(t, "sut")]
		fns := append(append([]string{}, oneArg...), twoArg...)
		fns = append(fns, "Join3", "Iter")
		fn := rapid.SampledFrom(fns).Draw(t, "fn")
		var a []string
		switch fn {
		case "Join", "Rel", "Match":
			a = []string{str.Draw(t, "a"), str.Draw(t, "b")}
		case "Join3":
			fn = "Join"
			a = []string{str.Draw(t, "a"), str.Draw(t, "b"), str.Draw(t, "c")}
		case "Iter":
			s := str.Draw(t, "a")
			c.Label("fn:Iter")
			note(c, "Iter", []string{s})
			return iterFailure(c, x, s)
		default:
			a = []string{str.Draw(t, "a")}
		}
		c.Label("fn:" + fn)
		c.Label("os:" + x.r.os)
		note(c, fn, a)
		if len(strings.Join(a, "")) > 20 {
			c.Label("len>20")
			c.Sample("long-"+fn, map[string]any{"fn": fn, "os": x.r.os, "args": a})
		}
		return check(c, x, fn, a)
	})
}

func runReplay(c *vt.Ctx, find func(fs, os string) *sut, cs Case) {
	x := find(cs.FS, cs.OS)
	if x == nil {
		x = find("MemFS", cs.OS)
	}
	if x == nil {
		return
	}
	switch cs.Kind {
	case "call":
		if f := check(c, x, cs.Fn, cs.Args); f != nil {
			if k := c.KnownFor(f.Dev); k != nil {
				c.WitnessLive(k.ID)
			}
			c.Report(f.Dev, f.Replay)
		}
	case "iter":
		if f := iterFailure(c, x, cs.Args[0]); f != nil {
			if k := c.KnownFor(f.Dev); k != nil {
				c.WitnessLive(k.ID)
			}
			c.Report(f.Dev, f.Replay)
		}
	}
}
