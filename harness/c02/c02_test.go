// C02 - open-file I/O behaves as os.File.
package c02

import (
	"fmt"
	"os"
	"strings"
	"testing"

	"pgregory.net/rapid"

	"verif/harness/internal/fsx"
	"verif/harness/internal/gen"
	"verif/harness/internal/kernel"
	"verif/harness/internal/vt"
	"verif/harness/internal/world"
)

// Case is a replayable C02 case.
type Case struct {
	FS  string   `json:"fs"`
	Ops []fsx.Op `json:"ops"`
	// As: the ops after the setup are issued by this non-administrator, who owns the file
	// (MemFS only). The kernel then also drops set-user-ID/set-group-ID bits on writes.
	As string `json:"as,omitempty"`
}

// asUser is the identity the current case runs under (nil: the administrator).
var asUser *world.Ident

func doStep(w *world.World, o fsx.Op) (fsx.Out, fsx.Out, *vt.Deviation) {
	if asUser != nil {
		return w.StepAs("C02", o, *asUser)
	}
	return w.Step("C02", o)
}

// becomeUser hands the file and the directory to u1 and makes /w writable by everybody;
// from then on the case runs as u1.
func becomeUser(c *vt.Ctx, w *world.World) bool {
	ids, err := w.SetupUsers()
	if err != nil {
		c.Inconclusive("users: " + err.Error())
		return false
	}
	u := ids["u1"]
	for _, o := range []fsx.Op{{K: "Chmod", P: "/w", Perm: 0o777}, {K: "Chown", P: fileA, Uid: u.Uid, Gid: u.Gid}, {K: "Chown", P: dirD, Uid: u.Uid, Gid: u.Gid}} {
		if _, _, dev := w.Step("C02", o); dev != nil {
			return false
		}
	}
	asUser = &u
	return true
}

const (
	fileA = "/w/f"
	fileB = "/w/g" // hard link / rename target
	dirD  = "/w/d"
)

var setup = []fsx.Op{
	{K: "WriteFile", P: fileA, Data: "0123456789", Perm: 0o644},
	{K: "Mkdir", P: dirD, Perm: 0o755},
	{K: "WriteFile", P: dirD + "/x", Data: "x", Perm: 0o644},
	{K: "WriteFile", P: dirD + "/y", Data: "y", Perm: 0o644},
	{K: "Mkdir", P: dirD + "/z", Perm: 0o755},
}

// hstate tracks what the generator knows about a handle slot.
type hstate struct {
	open bool
	dir  bool
	path string
}

type state struct {
	h    [3]hstate
	size int64 // current size of the file as seen by the reference
}

// refSize asks the reference for the current size of the file through any name or handle.
func refSize(w *world.World, st *state) int64 {
	for _, p := range []string{fileA, fileB} {
		if r := w.Snap.Lookup(p); r != nil && r.Type == "f" {
			return r.Size
		}
	}
	return st.size
}

func offsets(t *rapid.T, size int64, label string) int64 {
	c := []int64{-1, 0, 1, size - 1, size, size + 1, size + 7, 2 * size, size + 4096}
	return rapid.SampledFrom(c).Draw(t, label)
}

func data(t *rapid.T) string {
	return rapid.SampledFrom([]string{"", "A", "BCD", "EFGHIJKLMNOP", strings.Repeat("q", 5000)}).Draw(t, "data")
}

func drawOp(t *rapid.T, w *world.World, st *state) fsx.Op {
	size := refSize(w, st)
	kinds := []string{"Open", "Open", "FRead", "FReadAt", "FWrite", "FWrite", "FWriteAt", "FWriteString", "FSeek", "FSeek", "FTruncate", "FStat", "FSync",
		"FChmod", "FChown", "FChdir", "FClose", "FReadDir", "FReaddirnames", "FReadDirAll", "FReaddirnamesAll", "Truncate", "Rename", "Link", "Remove", "FName"}
	k := rapid.SampledFrom(kinds).Draw(t, "kind")
	h := rapid.IntRange(0, 2).Draw(t, "h")
	switch k {
	case "Open":
		p := rapid.SampledFrom([]string{fileA, fileA, fileA, fileB, dirD}).Draw(t, "path")
		return fsx.Op{K: "Open", P: p, Flag: rapid.SampledFrom(gen.OpenFlags()).Draw(t, "flag"), Perm: 0o644, H: h}
	case "FRead":
		return fsx.Op{K: k, H: h, N: rapid.SampledFrom([]int{0, 1, 4, 64, 6000}).Draw(t, "n")}
	case "FReadAt":
		return fsx.Op{K: k, H: h, N: rapid.SampledFrom([]int{0, 1, 4, 64}).Draw(t, "n"), Off: offsets(t, size, "off")}
	case "FWrite", "FWriteString":
		return fsx.Op{K: k, H: h, Data: data(t)}
	case "FWriteAt":
		return fsx.Op{K: k, H: h, Data: data(t), Off: offsets(t, size, "off")}
	case "FSeek":
		wh := rapid.SampledFrom([]int{0, 0, 1, 2, 5, -1}).Draw(t, "whence") // 3 and 4 are SEEK_DATA/SEEK_HOLE on Linux
		var off int64
		switch wh {
		case 0:
			off = offsets(t, size, "off")
		default:
			off = rapid.SampledFrom([]int64{-size - 1, -size, -1, 0, 1, 7, size, 4096}).Draw(t, "off")
		}
		return fsx.Op{K: k, H: h, Off: off, Whence: wh}
	case "FTruncate":
		return fsx.Op{K: k, H: h, Size: offsets(t, size, "size")}
	case "FChmod":
		return fsx.Op{K: k, H: h, Perm: rapid.SampledFrom([]uint32{0o644, 0o600, 0o000, 0o4755, 0o444}).Draw(t, "perm")}
	case "FChown":
		return fsx.Op{K: k, H: h, Uid: rapid.SampledFrom(gen.Ids).Draw(t, "uid"), Gid: rapid.SampledFrom(gen.Ids).Draw(t, "gid")}
	case "FReadDir", "FReaddirnames":
		return fsx.Op{K: k, H: h, N: rapid.SampledFrom([]int{-1, 0, 1, 2, 5}).Draw(t, "n")}
	case "FReadDirAll", "FReaddirnamesAll":
		return fsx.Op{K: k, H: h, N: rapid.SampledFrom([]int{1, 2, 3, 5}).Draw(t, "n")}
	case "Truncate":
		return fsx.Op{K: k, P: rapid.SampledFrom([]string{fileA, fileB}).Draw(t, "path"), Size: offsets(t, size, "size")}
	case "Rename":
		if rapid.Bool().Draw(t, "back") {
			return fsx.Op{K: k, P: fileB, P2: fileA}
		}
		return fsx.Op{K: k, P: fileA, P2: fileB}
	case "Link":
		if rapid.Bool().Draw(t, "back") {
			return fsx.Op{K: k, P: fileB, P2: fileA}
		}
		return fsx.Op{K: k, P: fileA, P2: fileB}
	case "Remove":
		return fsx.Op{K: k, P: rapid.SampledFrom([]string{fileA, fileB}).Draw(t, "path")}
	default:
		return fsx.Op{K: k, H: h}
	}
}

// usable reports whether a handle op can be issued on slot h: a slot that
// never held a handle is a nil interface on both sides (a harness artefact,
// not a case of the property).
func usable(o fsx.Op, st *state, everOpened [3]bool) bool {
	if !strings.HasPrefix(o.K, "F") {
		return true
	}
	if st.h[o.H].dir && (o.K == "FSeek" || o.K == "FReadAt" || o.K == "FWriteAt" || o.K == "FTruncate") {
		// lseek/pread on a directory descriptor is file-system specific (tmpfs:
		// SEEK_SET/SEEK_CUR only); the property covers ReadDir/Readdirnames there
		return false
	}
	if !st.h[o.H].dir && (o.K == "FReadDirAll" || o.K == "FReaddirnamesAll") && !everOpened[o.H] {
		return false
	}
	return everOpened[o.H]
}

// step issues one op, then probes every handle that is open on the reference
// side: offset, size/attributes through the handle, content through ReadAt.
func step(c *vt.Ctx, w *world.World, o fsx.Op, st *state, ever *[3]bool, flagsOf *[3]int) *vt.Deviation {
	c.Eval(1)
	_, ok, dev := doStep(w, o)
	if dev != nil {
		addFields(dev, o, st, flagsOf)
		return dev
	}
	switch o.K {
	case "Open":
		ever[o.H] = true
		flagsOf[o.H] = o.Flag
		st.h[o.H] = hstate{open: ok.Err == "ok", dir: o.P == dirD, path: o.P}
	case "FClose":
		if ok.Err == "ok" {
			st.h[o.H].open = false
		}
	}
	st.size = refSize(w, st)
	// probes
	for i := range st.h {
		if !st.h[i].open || st.h[i].dir {
			continue
		}
		probes := []fsx.Op{{K: "FSeek", H: i, Off: 0, Whence: 1}, {K: "FStat", H: i}}
		if flagsOf[i]&3 != os.O_WRONLY {
			probes = append(probes, fsx.Op{K: "FReadAt", H: i, N: int(min64(st.size, 12000)) + 8, Off: 0})
		}
		for _, p := range probes {
			_, _, dev := doStep(w, p)
			if dev != nil {
				dev.Fields["op"] = "probe:" + p.K + "-after-" + o.K
				addFields(dev, o, st, flagsOf)
				return dev
			}
		}
	}
	return nil
}

func min64(a, b int64) int64 {
	if a < b {
		return a
	}
	return b
}

func addFields(d *vt.Deviation, o fsx.Op, st *state, flagsOf *[3]int) {
	if strings.HasPrefix(o.K, "F") {
		d.Fields["hflags"] = fsx.FlagString(flagsOf[o.H])
		if st.h[o.H].dir {
			d.Fields["hkind"] = "dir"
		} else {
			d.Fields["hkind"] = "file"
		}
		if !st.h[o.H].open {
			d.Fields["hkind"] += ",closed-or-failed"
		}
	}
	cls := func(v int64) string {
		switch {
		case v < 0:
			return "neg"
		case v == 0:
			return "0"
		case v < st.size:
			return "<size"
		case v == st.size:
			return "=size"
		}
		return ">size"
	}
	switch o.K {
	case "FReadAt", "FWriteAt":
		d.Fields["params"] = "off" + cls(o.Off)
	case "FSeek":
		d.Fields["params"] = fmt.Sprintf("whence=%d,off%s", o.Whence, cls(o.Off))
	case "FTruncate", "Truncate":
		d.Fields["params"] = "size" + cls(o.Size)
	}
}

func runCase(c *vt.Ctx, kt *kernel.Thread, kind string, ops []fsx.Op, as string) *vt.Deviation {
	w, err := world.New(kt, kind, 0o022)
	if err != nil {
		c.Inconclusive("world: " + err.Error())
		return nil
	}
	defer w.Close()
	asUser = nil
	defer func() { asUser = nil }()
	st := &state{}
	var ever [3]bool
	var fl [3]int
	for i, o := range ops {
		if as != "" && i == len(setup) && !becomeUser(c, w) {
			return nil
		}
		if dev := step(c, w, o, st, &ever, &fl); dev != nil {
			if as != "" {
				dev.Fields["actor"] = "user"
			}
			return dev
		}
	}
	return nil
}

func TestCheck(t *testing.T) {
	c := vt.New(t, "C02")
	defer c.Finish()
	kt, err := kernel.New("/dev/shm")
	if err != nil {
		c.Inconclusive("kernel oracle unavailable: " + err.Error())
		return
	}
	defer kt.Close()

	for _, f := range c.ReplayFiles() {
		var cs Case
		if err := vt.LoadReplay(f, &cs); err != nil {
			c.Inconclusive("replay " + f + ": " + err.Error())
			continue
		}
		if dev := runCase(c, kt, cs.FS, cs.Ops, cs.As); dev != nil {
			if k := c.KnownFor(dev); k != nil {
				c.WitnessLive(k.ID)
			}
			c.Report(dev, cs)
		}
	}
	if c.Replay != "" {
		return
	}

	for _, kind := range []string{"MemFS", "OrefaFS"} {
		kind := kind
		// bounded-exhaustive core: one handle, every flag set, every pair of handle ops from a reduced op set
		exhaustive(c, kt, kind)

		c.Rapid("hist-"+kind, c.Pick(400, 6000), func(t *rapid.T) *vt.Failure {
			w, err := world.New(kt, kind, 0o022)
			if err != nil {
				c.Inconclusive("world: " + err.Error())
				return nil
			}
			defer w.Close()
			st := &state{}
			var ever [3]bool
			var fl [3]int
			done := append([]fsx.Op{}, setup...)
			for _, o := range setup {
				if dev := step(c, w, o, st, &ever, &fl); dev != nil {
					return &vt.Failure{Dev: dev, Replay: Case{FS: kind, Ops: done}}
				}
			}
			// a third of the MemFS histories run as the non-administrator who owns the file
			as := ""
			asUser = nil
			defer func() { asUser = nil }()
			if kind == "MemFS" && rapid.IntRange(0, 2).Draw(t, "as-user") == 0 {
				if !becomeUser(c, w) {
					return nil
				}
				as = "u1"
				c.Label("as:user")
			}
			n := rapid.IntRange(1, c.Pick(40, 60)).Draw(t, "n")
			maxOpen, pastEOF, pathMut := 0, false, false
			for i := 0; i < n; i++ {
				o := drawOp(t, w, st)
				if !usable(o, st, ever) {
					continue
				}
				sit := map[string]string{"prop": "C02", "fs": kind, "op": o.K}
				tmp := &vt.Deviation{Fields: sit}
				addFields(tmp, o, st, &fl)
				if rapid.IntRange(0, 9).Draw(t, "unsteered") != 0 {
					if id := steeredBy(c, tmp); id != "" {
						c.Excluded(id)
						continue
					}
				}
				done = append(done, o)
				c.Label("op:" + o.K)
				if (o.K == "FReadAt" || o.K == "FWriteAt" || o.K == "FSeek") && o.Off >= st.size {
					pastEOF = true
				}
				nOpen := 0
				for _, h := range st.h {
					if h.open {
						nOpen++
					}
				}
				if nOpen > maxOpen {
					maxOpen = nOpen
				}
				if (o.K == "Truncate" || o.K == "Rename" || o.K == "Link" || o.K == "Remove") && nOpen > 0 {
					pathMut = true
				}
				if dev := step(c, w, o, st, &ever, &fl); dev != nil {
					if as != "" {
						dev.Fields["actor"] = "user"
					}
					return &vt.Failure{Dev: dev, Replay: Case{FS: kind, Ops: done, As: as}}
				}
			}
			if maxOpen >= 2 && pastEOF && pathMut {
				parts := []string{kind}
				for _, o := range done {
					parts = append(parts, o.String())
				}
				c.NonTrivial(vt.Hash64(parts...))
				var ss []string
				for _, o := range done[len(setup):] {
					ss = append(ss, o.String())
				}
				c.Sample("hist-"+kind, map[string]any{"fs": kind, "ops": ss})
			}
			return nil
		})
	}
}

// steeredBy: situation match against open known findings (without outcome fields).
func steeredBy(c *vt.Ctx, d *vt.Deviation) string {
	for _, k := range c.OpenKnown() {
		m := map[string]string{}
		for f, p := range k.Match {
			if f == "expected" || f == "observed" {
				continue
			}
			m[f] = p
		}
		if !hasSituation(m) {
			continue
		}
		kk := *k
		kk.Match = m
		if kk.MatchesSituation(d) {
			return k.ID
		}
	}
	return ""
}

// exhaustive: for every flag combination, open one handle and run every pair
// of ops from a reduced handle-op set (offset classes relative to size 10).
func exhaustive(c *vt.Ctx, kt *kernel.Thread, kind string) {
	var ops []fsx.Op
	for _, off := range []int64{-1, 0, 3, 10, 15} {
		ops = append(ops, fsx.Op{K: "FSeek", H: 0, Off: off, Whence: 0}, fsx.Op{K: "FReadAt", H: 0, N: 4, Off: off},
			fsx.Op{K: "FWriteAt", H: 0, Data: "WX", Off: off}, fsx.Op{K: "FTruncate", H: 0, Size: off})
	}
	ops = append(ops, fsx.Op{K: "FSeek", H: 0, Off: -3, Whence: 2}, fsx.Op{K: "FSeek", H: 0, Off: 5, Whence: 2}, fsx.Op{K: "FSeek", H: 0, Off: 2, Whence: 1},
		fsx.Op{K: "FSeek", H: 0, Off: 0, Whence: 7}, fsx.Op{K: "FRead", H: 0, N: 4}, fsx.Op{K: "FRead", H: 0, N: 0}, fsx.Op{K: "FWrite", H: 0, Data: "ab"},
		fsx.Op{K: "FWrite", H: 0, Data: ""}, fsx.Op{K: "FClose", H: 0}, fsx.Op{K: "FStat", H: 0}, fsx.Op{K: "FSync", H: 0},
		fsx.Op{K: "Truncate", P: fileA, Size: 4}, fsx.Op{K: "Remove", P: fileA}, fsx.Op{K: "Rename", P: fileA, P2: fileB}, fsx.Op{K: "FChmod", H: 0, Perm: 0o600},
		fsx.Op{K: "FReadDir", H: 0, N: 1}, fsx.Op{K: "FReadDirAll", H: 0, N: 2}, fsx.Op{K: "FReaddirnames", H: 0, N: -1}, fsx.Op{K: "FChdir", H: 0})
	flags := gen.OpenFlags()
	if !c.Thorough() {
		flags = []int{os.O_RDONLY, os.O_WRONLY, os.O_RDWR, os.O_RDWR | os.O_APPEND, os.O_WRONLY | os.O_TRUNC, os.O_RDONLY | os.O_APPEND, os.O_RDWR | os.O_CREATE | os.O_EXCL, os.O_RDONLY | os.O_CREATE | os.O_TRUNC}
	}
	idx := 0
	for _, fl := range flags {
		for _, target := range []string{fileA, dirD} {
			if target == dirD && fl&^3 != 0 && !c.Thorough() {
				continue
			}
			for _, o1 := range ops {
				for _, o2 := range ops {
					idx++
					if idx%c.NShards != c.Shard {
						continue
					}
					if target == dirD && (dirSkip(o1) || dirSkip(o2)) {
						continue
					}
					cs := append(append([]fsx.Op{}, setup...), fsx.Op{K: "Open", P: target, Flag: fl, Perm: 0o644, H: 0}, o1, o2)
					if dev := runCase(c, kt, kind, cs, ""); dev != nil {
						c.Report(dev, Case{FS: kind, Ops: cs})
					}
					c.NonTrivial(vt.Hash64(kind, fsx.FlagString(fl), target, o1.String(), o2.String()))
				}
			}
		}
	}
	c.Extra("exhaustive_"+kind, fmt.Sprintf("%d flag sets x {file, dir} x %d^2 op pairs on one handle", len(flags), len(ops)))
	c.SetExhaustive(true)
	if kind != "MemFS" {
		return
	}
	// attributes: as the non-administrator who owns the file, every special-bit mode x every
	// modifying op (the kernel drops set-user-ID and set-group-ID when the content changes)
	mods := []fsx.Op{{K: "FWrite", H: 0, Data: "ab"}, {K: "FWrite", H: 0, Data: ""}, {K: "FWriteString", H: 0, Data: "s"}, {K: "FWriteAt", H: 0, Data: "x", Off: 1},
		{K: "FWriteAt", H: 0, Data: "x", Off: 9}, {K: "FWriteAt", H: 0, Data: "xy", Off: 9}, {K: "FWriteAt", H: 0, Data: "x", Off: 20}, {K: "FWriteAt", H: 0, Data: "", Off: 1},
		{K: "FTruncate", H: 0, Size: 3}, {K: "FTruncate", H: 0, Size: 10}, {K: "FTruncate", H: 0, Size: 12}, {K: "Truncate", P: fileA, Size: 3}, {K: "Truncate", P: fileA, Size: 10},
		{K: "FChown", H: 0, Uid: -1, Gid: -1}, {K: "FRead", H: 0, N: 4}, {K: "FSync", H: 0}, {K: "Rename", P: fileA, P2: fileB}, {K: "Link", P: fileA, P2: fileB}}
	n := 0
	for _, perm := range []uint32{0o4755, 0o2755, 0o6755, 0o2745, 0o6711, 0o4644, 0o1755} {
		for _, fl := range []int{os.O_RDWR, os.O_WRONLY, os.O_RDWR | os.O_APPEND} {
			for _, m := range mods {
				n++
				if n%c.NShards != c.Shard {
					continue
				}
				cs := append(append([]fsx.Op{}, setup...), fsx.Op{K: "Open", P: fileA, Flag: fl, Perm: 0o644, H: 0}, fsx.Op{K: "FChmod", H: 0, Perm: perm}, m, fsx.Op{K: "FStat", H: 0})
				if dev := runCase(c, kt, kind, cs, "u1"); dev != nil {
					c.Report(dev, Case{FS: kind, Ops: cs, As: "u1"})
				}
				c.NonTrivial(vt.Hash64("special", fmt.Sprint(perm, fl), m.String()))
			}
		}
	}
	// ... and a directory handle whose directory loses the search bit before File.Chdir
	for i, perm := range []uint32{0o000, 0o600, 0o444, 0o111, 0o311, 0o755} {
		if i%c.NShards != c.Shard {
			continue
		}
		cs := append(append([]fsx.Op{}, setup...), fsx.Op{K: "Open", P: dirD, Flag: os.O_RDONLY, H: 0}, fsx.Op{K: "FChmod", H: 0, Perm: perm}, fsx.Op{K: "FChdir", H: 0},
			fsx.Op{K: "FReadDir", H: 0, N: -1}, fsx.Op{K: "FStat", H: 0})
		if dev := runCase(c, kt, kind, cs, "u1"); dev != nil {
			c.Report(dev, Case{FS: kind, Ops: cs, As: "u1"})
		}
		c.NonTrivial(vt.Hash64("dirperm", fmt.Sprint(perm)))
	}
	c.Extra("special_bits_"+kind, fmt.Sprintf("%d cases: 7 special-bit modes x 3 flag sets x %d modifying ops as the owning non-administrator", n, len(mods)))
}

func dirSkip(o fsx.Op) bool {
	return o.K == "FSeek" || o.K == "FReadAt" || o.K == "FWriteAt" || o.K == "FTruncate"
}

func hasSituation(m map[string]string) bool {
	for _, f := range []string{"op", "a", "b", "ab", "rel", "params", "hflags", "hkind"} {
		if _, ok := m[f]; ok {
			return true
		}
	}
	return false
}
