// C04 - symbolic links resolve as the kernel resolves them.
package c04

import (
	"fmt"
	"os"
	"path"
	"strings"
	"testing"

	"pgregory.net/rapid"

	"verif/harness/internal/fsx"
	"verif/harness/internal/kernel"
	"verif/harness/internal/vt"
	"verif/harness/internal/world"
)

// Case is a replayable C04 case.
type Case struct {
	Build []fsx.Op `json:"build,omitempty"`
	Ops   []fsx.Op `json:"ops,omitempty"`
	// Kind "unclean": Symlink(Target) against Symlink(Clean(Target)) on two MemFS, a of kind A
	Kind   string `json:"kind,omitempty"`
	Target string `json:"target,omitempty"`
	A      string `json:"a,omitempty"`
}

// node kinds of the three names a, b, c in /w
var linkTargets = []string{"a", "b", "c", "d/x", "d/l", "../w/b", "/w/a", "/w/c", "/w/d", ".", "..", "nonexist", "d", "d/m", "d/n"}

func kinds() []string {
	k := []string{"F", "D", "N"}
	for _, t := range linkTargets {
		k = append(k, "L:"+t)
	}
	return k
}

// build returns the ops that create the graph: /w/d is a fixed directory with
// a file x and a link l -> ../a; a, b, c get the given kinds. /w/dd is a sibling
// whose name has "d" as a strict prefix, reached from inside /w/d by the links
// m -> ../dd/x and n -> /w/dd (substituting a link by a target that shares only a
// string prefix with the directory it stands in).
func build(ka, kb, kc string) []fsx.Op {
	ops := []fsx.Op{{K: "Mkdir", P: "/w/d", Perm: 0o755}, {K: "WriteFile", P: "/w/d/x", Data: "DX", Perm: 0o644}, {K: "Symlink", P: "../a", P2: "/w/d/l"},
		{K: "Mkdir", P: "/w/dd", Perm: 0o755}, {K: "WriteFile", P: "/w/dd/x", Data: "DDX", Perm: 0o644}, {K: "Symlink", P: "../dd/x", P2: "/w/d/m"}, {K: "Symlink", P: "/w/dd", P2: "/w/d/n"}}
	for i, k := range []string{ka, kb, kc} {
		p := "/w/" + string(rune('a'+i))
		switch {
		case k == "F":
			ops = append(ops, fsx.Op{K: "WriteFile", P: p, Data: strings.ToUpper(p[3:]), Perm: 0o644})
		case k == "D":
			ops = append(ops, fsx.Op{K: "Mkdir", P: p, Perm: 0o755}, fsx.Op{K: "WriteFile", P: p + "/x", Data: "X", Perm: 0o644}, fsx.Op{K: "Symlink", P: "../b", P2: p + "/l"})
		case strings.HasPrefix(k, "L:"):
			ops = append(ops, fsx.Op{K: "Symlink", P: k[2:], P2: p})
		}
	}
	return ops
}

// queries: paths of up to n components over the names
func queries(n int) []string {
	names := []string{"a", "b", "c", "d", "x", "l"}
	var r []string
	var rec func(prefix string, depth int)
	rec = func(prefix string, depth int) {
		for _, nm := range names {
			p := prefix + "/" + nm
			r = append(r, p)
			if depth+1 < n {
				rec(p, depth+1)
			}
		}
	}
	rec("/w", 0)
	return r
}

var readCalls = []string{"Stat", "Lstat", "ReadFile", "ReadDir", "EvalSymlinks", "Readlink"}

func mutCalls(p string, i int) []fsx.Op {
	switch i % 20 {
	// the queried path as the destination (Rename, Link, Symlink, Mkdir and O_EXCL see the link
	// itself; plain O_CREATE and WriteFile go through it)
	case 9:
		return []fsx.Op{{K: "Rename", P: "/w/d/x", P2: p}}
	case 10:
		return []fsx.Op{{K: "Link", P: "/w/d/x", P2: p}}
	case 11:
		return []fsx.Op{{K: "Symlink", P: "zz", P2: p}}
	case 12:
		return []fsx.Op{{K: "Mkdir", P: p, Perm: 0o755}}
	case 13:
		return []fsx.Op{{K: "Open", P: p, Flag: os.O_WRONLY | os.O_CREATE | os.O_EXCL, Perm: 0o644, H: 0}, {K: "FClose", H: 0}}
	case 14:
		return []fsx.Op{{K: "WriteFile", P: p, Data: "via", Perm: 0o644}}
	case 15:
		return []fsx.Op{{K: "RemoveAll", P: p}}
	case 16:
		return []fsx.Op{{K: "Rename", P: p, P2: p}}
	case 17:
		return []fsx.Op{{K: "Chown", P: p, Uid: 1001, Gid: 1002}}
	case 18:
		return []fsx.Op{{K: "Open", P: p, Flag: os.O_RDWR | os.O_CREATE, Perm: 0o644, H: 0}, {K: "FWrite", H: 0, Data: "c"}, {K: "FClose", H: 0}}
	case 19:
		// the working directory set through a handle opened by way of links is the directory reached, not the spelling
		return []fsx.Op{{K: "Open", P: p, Flag: os.O_RDONLY, H: 1}, {K: "FChdir", H: 1}, {K: "Getwd"}, {K: "Stat", P: "x"}, {K: "Stat", P: ".."}, {K: "ReadDir", P: ".."}, {K: "Chdir", P: "/"}, {K: "FClose", H: 1}}
	}
	switch i % 20 {
	case 0:
		return []fsx.Op{{K: "Chmod", P: p, Perm: 0o600}}
	case 1:
		return []fsx.Op{{K: "Truncate", P: p, Size: 1}}
	case 2:
		return []fsx.Op{{K: "Mkdir", P: p + "/new", Perm: 0o755}}
	case 3:
		return []fsx.Op{{K: "Remove", P: p}}
	case 4:
		return []fsx.Op{{K: "Rename", P: p, P2: "/w/renamed"}}
	case 5:
		return []fsx.Op{{K: "Lchown", P: p, Uid: 1001, Gid: 1002}}
	case 6:
		return []fsx.Op{{K: "Link", P: p, P2: "/w/hard"}}
	case 7:
		return []fsx.Op{{K: "Open", P: p, Flag: os.O_RDWR, H: 0}, {K: "FRead", H: 0, N: 4}, {K: "FWrite", H: 0, Data: "w"}, {K: "FClose", H: 0}}
	default:
		return []fsx.Op{{K: "Chdir", P: p}, {K: "Getwd"}, {K: "Stat", P: "x"}, {K: "Chdir", P: "/"}}
	}
}

func crossesLink(s fsx.Snap, p string) bool {
	// the query crosses a symlink in intermediate position, ends in a link, or meets a cycle
	cl := fsx.Classify(s, "/", p)
	return strings.Contains(cl, "via-lnk") || strings.HasPrefix(cl, "lnk>") || strings.Contains(cl, "loop")
}

func runCase(c *vt.Ctx, kt *kernel.Thread, cs Case) *vt.Deviation {
	w, err := world.New(kt, "MemFS", 0o022)
	if err != nil {
		c.Inconclusive("world: " + err.Error())
		return nil
	}
	defer w.Close()
	for _, o := range cs.Build {
		if _, _, dev := w.Step("C04", o); dev != nil {
			dev.Fields["phase"] = "build"
			return dev
		}
	}
	w.FastReads = true
	for _, o := range cs.Ops {
		c.Eval(1)
		if crossesLink(w.Snap, o.P) {
			c.NonTrivial(vt.Hash64(fmt.Sprint(cs.Build), o.String()))
		}
		if _, _, dev := w.Step("C04", o); dev != nil {
			if c.KnownFor(dev) != nil && (readCall[o.K] || dev.Fields["expected"] != "tree" && dev.Fields["expected"] != "ok" && dev.Fields["observed"] != "ok") {
				// both sides refused (or a read-only query differed): the trees are
				// still the same, the remaining queries run
				c.Report(dev, nil)
				continue
			}
			return dev
		}
	}
	return nil
}

var readCall = map[string]bool{"Stat": true, "Lstat": true, "ReadFile": true, "ReadDir": true, "EvalSymlinks": true, "Readlink": true, "Getwd": true}

func TestCheck(t *testing.T) {
	c := vt.New(t, "C04")
	defer c.Finish()
	kt, err := kernel.New("/dev/shm")
	if err != nil {
		c.Inconclusive("kernel oracle unavailable: " + err.Error())
		return
	}
	defer kt.Close()
	for _, f := range c.ReplayFiles() {
		var cs Case
		if err := vt.LoadReplay(f, &cs); err != nil {
			c.Inconclusive("replay " + f + ": " + err.Error())
			continue
		}
		var dev *vt.Deviation
		if cs.Kind == "unclean" {
			dev = uncleanCase(c, cs.Target, cs.A)
		} else {
			dev = runCase(c, kt, cs)
		}
		if dev != nil {
			if k := c.KnownFor(dev); k != nil {
				c.WitnessLive(k.ID)
			}
			c.Report(dev, cs)
		}
	}
	if c.Replay != "" {
		return
	}

	// 1. bounded-exhaustive: graphs over a, b, c with at most maxLinks symbolic links x all queries of <= depth components
	ks := kinds()
	maxLinks, depth := c.Pick(2, 3), c.Pick(2, 3)
	qs := queries(depth)
	idx, graphs := 0, 0
	for _, ka := range ks {
		for _, kb := range ks {
			for _, kc := range ks {
				nl := 0
				for _, k := range []string{ka, kb, kc} {
					if strings.HasPrefix(k, "L:") {
						nl++
					}
				}
				if nl > maxLinks || nl == 0 {
					continue
				}
				idx++
				if idx%c.NShards != c.Shard {
					continue
				}
				graphs++
				cs := Case{Build: build(ka, kb, kc)}
				for _, q := range qs {
					for _, call := range readCalls {
						cs.Ops = append(cs.Ops, fsx.Op{K: call, P: q})
					}
				}
				for _, q := range []string{"/w/d/m", "/w/d/n", "/w/d/n/x", "/w/a/m", "/w/a/n/x"} {
					for _, call := range readCalls {
						cs.Ops = append(cs.Ops, fsx.Op{K: call, P: q})
					}
				}
				// one mutating call per graph on each of a few paths, chosen by position
				for j, q := range []string{"/w/a", "/w/b", "/w/c", "/w/a/x", "/w/b/l", "/w/d/l", "/w/c", "/w/a", "/w/d/m"} {
					cs.Ops = append(cs.Ops, mutCalls(q, idx*7+j*3)...)
				}
				if dev := runCase(c, kt, cs); dev != nil {
					// keep the replay small: the build and the failing op
					c.Report(dev, cs)
				}
				if graphs%97 == 1 {
					c.Sample(fmt.Sprint("graph", graphs%4), map[string]any{"a": ka, "b": kb, "c": kc, "queries": len(cs.Ops)})
				}
			}
		}
	}
	c.Extra("exhaustive_space", fmt.Sprintf("%d link graphs of this shard (3 names x %d node kinds, 1..%d symbolic links) x %d query paths of <= %d components x %d read calls + mutating calls", graphs, len(ks), maxLinks, len(qs), depth, len(readCalls)))
	c.SetExhaustive(true)

	// 2. chains of length k around the kernel's limit of 40
	for _, k := range []int{1, 2, 8, 39, 40, 41, 42, 64, 65, 100} {
		for _, end := range []string{"file", "dir", "dangling"} {
			cs := Case{}
			switch end {
			case "file":
				cs.Build = append(cs.Build, fsx.Op{K: "WriteFile", P: "/w/t", Data: "T", Perm: 0o644})
			case "dir":
				cs.Build = append(cs.Build, fsx.Op{K: "Mkdir", P: "/w/t", Perm: 0o755}, fsx.Op{K: "WriteFile", P: "/w/t/x", Data: "TX", Perm: 0o644})
			}
			prev := "t"
			for i := k; i >= 1; i-- {
				n := fmt.Sprintf("l%d", i)
				cs.Build = append(cs.Build, fsx.Op{K: "Symlink", P: prev, P2: "/w/" + n})
				prev = n
			}
			for _, call := range []string{"Stat", "Lstat", "ReadFile", "ReadDir", "EvalSymlinks", "Readlink"} {
				cs.Ops = append(cs.Ops, fsx.Op{K: call, P: "/w/l1"}, fsx.Op{K: call, P: "/w/l1/x"}, fsx.Op{K: call, P: fmt.Sprintf("/w/l%d", (k+1)/2)})
			}
			cs.Ops = append(cs.Ops, mutCalls("/w/l1", 7)...)
			cs.Ops = append(cs.Ops, mutCalls("/w/l1", 8)...)
			cs.Ops = append(cs.Ops, mutCalls("/w/l1", 0)...)
			cs.Ops = append(cs.Ops, mutCalls("/w/l1", 14)...)
			cs.Ops = append(cs.Ops, mutCalls("/w/l1", 9)...)
			cs.Ops = append(cs.Ops, mutCalls("/w/l1", 19)...)
			if dev := runCase(c, kt, cs); dev != nil {
				dev.Fields["chain"] = chainClass(k)
				c.Report(dev, cs)
			}
		}
	}

	// 2b. link targets that are not lexically clean: "Readlink returns the (lexically cleaned)
	// target given to Symlink". The kernel keeps the text as given, so the reference here is
	// the emulation itself: Symlink(T, p) must leave exactly what Symlink(Clean(T), p) leaves -
	// same Readlink, same size of the link, same tree, same answers through the link.
	unclean := []string{"./a", "d//x", "d/", "d/../a", "./d/./x", "/w//d/x", "a/.", "../w/./a", "a/", "./", "d/x/..", "/w/d/../a/", ".//a", "nonexist/../a", "d/./"}
	for ui, tg := range unclean {
		if ui%c.NShards != c.Shard {
			continue
		}
		for _, ka := range []string{"F", "D", "N"} {
			if d := uncleanCase(c, tg, ka); d != nil {
				c.Report(d, Case{Kind: "unclean", Target: tg, A: ka})
			}
		}
	}
	c.Sample("unclean-target", map[string]any{"targets": unclean[:4], "rule": "Symlink(T) leaves what Symlink(Clean(T)) leaves"})

	// 3. random larger graphs and 4-component queries
	names := []string{"a", "b", "c", "d", "x", "l", "dd"}
	c.Rapid("random", c.Pick(400, 12000), func(t *rapid.T) *vt.Failure {
		cs := Case{Build: []fsx.Op{{K: "Mkdir", P: "/w/d", Perm: 0o755}, {K: "WriteFile", P: "/w/d/x", Data: "DX", Perm: 0o644}}}
		dirs := []string{"/w", "/w/d"}
		for n := rapid.IntRange(2, 8).Draw(t, "nodes"); n > 0; n-- {
			dir := rapid.SampledFrom(dirs).Draw(t, "dir")
			p := dir + "/" + rapid.SampledFrom(names).Draw(t, "name")
			switch rapid.IntRange(0, 5).Draw(t, "kind") {
			case 0:
				cs.Build = append(cs.Build, fsx.Op{K: "WriteFile", P: p, Data: "F", Perm: 0o644})
			case 1:
				cs.Build = append(cs.Build, fsx.Op{K: "Mkdir", P: p, Perm: 0o755})
				dirs = append(dirs, p)
			default:
				tg := rapid.SampledFrom([]string{"a", "b", "c", "d", "x", "l", "../a", "../b", "../d/x", "d/l", "/w/a", "/w/b", "/w/d", "/w/d/l", ".", "..", "nonexist", "../..", "a/x", "../dd/x", "/w/dd", "dd/x", "../dd"}).Draw(t, "target")
				cs.Build = append(cs.Build, fsx.Op{K: "Symlink", P: tg, P2: p})
			}
		}
		w, err := world.New(kt, "MemFS", 0o022)
		if err != nil {
			c.Inconclusive("world: " + err.Error())
			return nil
		}
		defer w.Close()
		for _, o := range cs.Build {
			// build steps may fail identically (name taken): that is fine
			if _, _, dev := w.Step("C04", o); dev != nil {
				if c.KnownFor(dev) != nil {
					return &vt.Failure{Dev: dev, Replay: cs}
				}
				dev.Fields["phase"] = "build"
				return &vt.Failure{Dev: dev, Replay: cs}
			}
		}
		w.FastReads = true
		for n := rapid.IntRange(1, 25).Draw(t, "queries"); n > 0; n-- {
			depth := rapid.IntRange(1, 4).Draw(t, "depth")
			p := "/w"
			for i := 0; i < depth; i++ {
				p += "/" + rapid.SampledFrom(names).Draw(t, "comp")
			}
			var ops []fsx.Op
			if rapid.IntRange(0, 3).Draw(t, "mut") == 0 {
				ops = mutCalls(p, rapid.IntRange(0, 19).Draw(t, "which"))
			} else {
				ops = []fsx.Op{{K: rapid.SampledFrom(readCalls).Draw(t, "call"), P: p}}
			}
			for _, o := range ops {
				cs.Ops = append(cs.Ops, o)
				c.Eval(1)
				c.Label("call:" + o.K)
				if crossesLink(w.Snap, o.P) {
					c.NonTrivial(vt.Hash64(fmt.Sprint(cs.Build), o.String()))
				}
				if _, _, dev := w.Step("C04", o); dev != nil {
					return &vt.Failure{Dev: dev, Replay: cs}
				}
			}
		}
		return nil
	})
}

// uncleanCase: Symlink(tg, /w/u) must leave exactly what Symlink(Clean(tg), /w/u) leaves.
func uncleanCase(c *vt.Ctx, tg, ka string) *vt.Deviation {
	var outs [2][]string
	for side, target := range []string{tg, winClean(tg)} {
		v, _ := world.NewVFS("MemFS")
		_ = v.SetUMask(0o022)
		_ = v.MkdirAll("/w", 0o755)
		r := fsx.NewRunner(v)
		ops := append(build(ka, "N", "N"), fsx.Op{K: "Symlink", P: target, P2: "/w/u"})
		for _, call := range []string{"Readlink", "Lstat", "Stat", "ReadFile", "ReadDir", "EvalSymlinks"} {
			ops = append(ops, fsx.Op{K: call, P: "/w/u"}, fsx.Op{K: call, P: "/w/u/x"})
		}
		ops = append(ops, fsx.Op{K: "WriteFile", P: "/w/u", Data: "via", Perm: 0o644}, fsx.Op{K: "Mkdir", P: "/w/u/n", Perm: 0o755})
		for _, o := range ops {
			outs[side] = append(outs[side], o.String()+" -> "+r.Do(o).String())
		}
		r.CloseAll()
		outs[side] = append(outs[side], fsx.Snapshot(v, fsx.SnapOpts{}).String())
	}
	c.Eval(1)
	c.NonTrivial(vt.Hash64("unclean", tg, ka))
	for i := range outs[0] {
		// the Symlink call itself prints its (different) argument
		if i < len(outs[1]) && outs[0][i] != outs[1][i] && !strings.HasPrefix(outs[0][i], "Symlink(") {
			d := vt.Dev("prop", "C04", "fs", "MemFS", "op", "Symlink", "clause", "unclean-target", "target", tg)
			d.Detail = fmt.Sprintf("MemFS Symlink(%q, /w/u) with a = %s: %s ; with the cleaned target %q: %s", tg, ka, outs[0][i], winClean(tg), outs[1][i])
			return d
		}
	}
	return nil
}

// winClean is path.Clean: the lexical cleaning of a Linux path.
func winClean(p string) string { return path.Clean(p) }

func chainClass(k int) string {
	switch {
	case k <= 40:
		return "<=40"
	case k <= 64:
		return "41..64"
	}
	return ">64"
}
