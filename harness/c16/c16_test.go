// C16 - CopyFile and HashFile report every failure and copy faithfully.
package c16

import (
	"bytes"
	"crypto/sha256"
	"fmt"
	"github.com/avfs/avfs/idm/memidm"
	"hash"
	"hash/fnv"
	"os"
	"testing"
	"verif/harness/internal/fsx"

	"github.com/avfs/avfs"
	"github.com/avfs/avfs/vfs/basepathfs"
	"github.com/avfs/avfs/vfs/failfs"
	"github.com/avfs/avfs/vfs/memfs"
	"github.com/avfs/avfs/vfs/orefafs"
	"github.com/avfs/avfs/vfs/osfs"

	"verif/harness/internal/vt"
)

// Case is a replayable C16 case.
type Case struct {
	Func   string `json:"func"` // CopyFile | CopyFileHash | HashFile
	Src    string `json:"src"`  // file system kind of the source
	Dst    string `json:"dst"`
	Size   int    `json:"size"`
	Perm   uint32 `json:"perm"`
	Hasher string `json:"hasher"` // nil | sha256 | fnv64
	Side   string `json:"side"`   // "" (no fault) | src | dst
	Fn     int    `json:"fn,omitempty"`
	K      int    `json:"k,omitempty"`
	Pre    bool   `json:"pre,omitempty"`  // the destination already exists (longer, other content, mode 0600)
	Used   bool   `json:"used,omitempty"` // the hasher was used before
	Same   bool   `json:"same,omitempty"` // source and destination (two file systems) use the same path string
	Link   bool   `json:"link,omitempty"` // the source is named through a symbolic link (the copy is of what it leads to)
}

// innerOf: for the kind whose FailFS sits below another wrapper, the file system the FailFS goes on.
var innerOf = map[avfs.VFS]avfs.VFS{}

func symlinks(kind string) bool { return kind == "MemFS" || kind == "MemFS+user" || kind == "OsFS" }

// "MemFS+user": a MemFS with an identity manager whose current user is not the administrator
// (the kernel-like rules for special bits then apply to what the copy writes)
var fsKinds = []string{"MemFS", "OrefaFS", "OsFS", "BasePathFS(MemFS)", "MemFS+user", "BasePathFS(FailFS(MemFS))"}

func specialBits(kind string) bool { return kind == "MemFS" || kind == "MemFS+user" }

func newFS(kind, scratch string) (v avfs.VFS, dir string, err error) {
	switch kind {
	case "MemFS":
		v = memfs.NewWithOptions(&memfs.Options{OSType: avfs.OsLinux})
		dir = "/w"
	case "MemFS+user":
		idm := memidm.NewWithOptions(&memidm.Options{OSType: avfs.OsLinux})
		_, _ = idm.AddGroup("g1")
		u, uerr := idm.AddUser("u1", "g1")
		if uerr != nil {
			return nil, "", uerr
		}
		m := memfs.NewWithOptions(&memfs.Options{OSType: avfs.OsLinux, Idm: idm})
		_ = m.SetUMask(0o022)
		if err = m.MkdirAll("/w", 0o777); err != nil {
			return nil, "", err
		}
		_ = m.Chmod("/w", 0o777)
		if err = m.SetUser(u); err != nil {
			return nil, "", err
		}
		return m, "/w", nil
	case "OrefaFS":
		v = orefafs.NewWithOptions(&orefafs.Options{OSType: avfs.OsLinux})
		dir = "/w"
	case "OsFS":
		v = osfs.NewWithNoIdm()
		dir = scratch
		return v, dir, nil
	case "BasePathFS(MemFS)", "BasePathFS(FailFS(MemFS))":
		m := memfs.NewWithOptions(&memfs.Options{OSType: avfs.OsLinux})
		_ = m.MkdirAll("/base", 0o755)
		v, err = basepathfs.NewWithErr(m, "/base")
		if err != nil {
			return nil, "", err
		}
		if kind != "BasePathFS(MemFS)" {
			// the faults are injected below the BasePathFS (run puts a FailFS between it and m); this
			// one, without faults, serves the setup and the verification
			innerOf[v] = m
		}
		dir = "/w"
	}
	_ = v.SetUMask(0o022)
	err = v.MkdirAll(dir, 0o755)
	return v, dir, err
}

func content(n int) []byte {
	b := make([]byte, n)
	for i := range b {
		b[i] = byte((i*31 + i/251 + 7) % 253) // position dependent
	}
	return b
}

func hasher(name string) hash.Hash {
	switch name {
	case "sha256":
		return sha256.New()
	case "fnv64":
		return fnv.New64a()
	}
	return nil
}

type countFn struct {
	counts map[avfs.FnVFS]int
	fn     avfs.FnVFS
	k      int
	fired  bool
	writes int // successful writes before the fault
}

func (cf *countFn) f(_ avfs.VFSBase, fn avfs.FnVFS, _ *failfs.FailParam) error {
	cf.counts[fn]++
	if fn == cf.fn && cf.counts[fn] == cf.k {
		cf.fired = true
		return fmt.Errorf("verif-fault-%s-%d", fn, cf.k)
	}
	if fn == avfs.FnFileWrite && !cf.fired {
		cf.writes++
	}
	return nil
}

// mustFail: primitives whose failure the property requires to be reported
var mustFail = map[avfs.FnVFS]bool{avfs.FnOpenFile: true, avfs.FnFileRead: true, avfs.FnFileWrite: true, avfs.FnFileSync: true, avfs.FnStat: true, avfs.FnChmod: true}

func run(c *vt.Ctx, cs Case, scratch string) (dev *vt.Deviation, srcCounts, dstCounts map[avfs.FnVFS]int, fired bool, writesBefore int) {
	c.Eval(1)
	mk := func(clause, detail string) *vt.Deviation {
		d := vt.Dev("prop", "C16", "func", cs.Func, "src", cs.Src, "dst", cs.Dst, "clause", clause, "side", cs.Side)
		if cs.Side != "" {
			d.Fields["fn"] = avfs.FnVFS(cs.Fn).String()
		}
		d.Detail = fmt.Sprintf("%+v: %s", cs, detail)
		return d
	}
	srcBase, srcDir, err := newFS(cs.Src, scratch+"/src")
	if err != nil {
		c.Inconclusive("fs: " + err.Error())
		return
	}
	dstBase, dstDir, err := newFS(cs.Dst, scratch+"/dst")
	if err != nil {
		c.Inconclusive("fs: " + err.Error())
		return
	}
	if cs.Src == "OsFS" {
		_ = os.RemoveAll(srcDir)
		_ = os.MkdirAll(srcDir, 0o755)
	}
	if cs.Dst == "OsFS" {
		_ = os.RemoveAll(dstDir)
		_ = os.MkdirAll(dstDir, 0o755)
	}
	data := content(cs.Size)
	srcPath, dstPath := srcBase.Join(srcDir, "src"), dstBase.Join(dstDir, "dst")
	if cs.Same && cs.Src != "OsFS" && cs.Dst != "OsFS" {
		// two distinct file systems, one path string (the in-memory kinds all work below /w)
		dstPath = srcPath
	}
	if err := srcBase.WriteFile(srcPath, data, 0o600); err != nil {
		c.Inconclusive("setup: " + err.Error())
		return
	}
	perm := fsx.ModeFromBits(cs.Perm)
	if err := srcBase.Chmod(srcPath, perm); err != nil {
		c.Inconclusive("setup: " + err.Error())
		return
	}
	if cs.Pre && cs.Func != "HashFile" {
		old := append([]byte("previous content "), content(cs.Size+13)...)
		if err := dstBase.WriteFile(dstPath, old, 0o600); err != nil {
			c.Inconclusive("setup: " + err.Error())
			return
		}
		if err := dstBase.Chmod(dstPath, 0o600); err != nil {
			c.Inconclusive("setup: " + err.Error())
			return
		}
	}
	sc := &countFn{counts: map[avfs.FnVFS]int{}}
	dc := &countFn{counts: map[avfs.FnVFS]int{}}
	switch cs.Side {
	case "src":
		sc.fn, sc.k = avfs.FnVFS(cs.Fn), cs.K
	case "dst":
		dc.fn, dc.k = avfs.FnVFS(cs.Fn), cs.K
	}
	stack := func(base avfs.VFS, cf *countFn) avfs.VFS {
		if m, ok := innerOf[base]; ok {
			delete(innerOf, base)
			ff := failfs.New(m)
			w, err := basepathfs.NewWithErr(ff, "/base")
			if err == nil {
				_ = ff.SetFailFunc(cf.f) // armed after the wrapper's own look at its base directory
				return w
			}
		}
		ff := failfs.New(base)
		_ = ff.SetFailFunc(cf.f)
		return ff
	}
	sf, df := stack(srcBase, sc), stack(dstBase, dc)
	if cs.Link && symlinks(cs.Src) {
		lp := srcPath + ".lnk"
		if err := srcBase.Symlink(srcPath, lp); err != nil {
			c.Inconclusive("setup: " + err.Error())
			return
		}
		srcPath = lp
	}
	h := hasher(cs.Hasher)
	if h != nil && cs.Used {
		// the hasher has already served another file: the digest returned must still be
		// the digest of this file's bytes
		_, _ = h.Write([]byte("bytes of a file hashed before with the same hasher"))
	}
	var sum []byte
	var rerr error
	func() {
		defer func() {
			if p := recover(); p != nil {
				dev = mk("panic", fmt.Sprint(p))
			}
		}()
		switch cs.Func {
		case "CopyFile":
			rerr = avfs.CopyFile(df, sf, dstPath, srcPath)
		case "CopyFileHash":
			sum, rerr = avfs.CopyFileHash(df, sf, dstPath, srcPath, h)
		case "HashFile":
			sum, rerr = avfs.HashFile(sf, srcPath, h)
		}
	}()
	srcCounts, dstCounts = sc.counts, dc.counts
	fired = sc.fired || dc.fired
	writesBefore = dc.writes
	if dev != nil {
		return
	}
	firedFn := avfs.FnVFS(cs.Fn)
	if fired && rerr == nil {
		closeOfDst := cs.Side == "dst" && firedFn == avfs.FnFileClose
		if mustFail[firedFn] || closeOfDst {
			dev = mk("failure-not-reported", fmt.Sprintf("primitive %s of the %s side failed and the function returned a nil error", firedFn, cs.Side))
			return
		}
	}
	if rerr != nil {
		if !fired {
			dev = mk("unexpected-error", "no fault was injected and the function returned "+rerr.Error())
		}
		return
	}
	// nil error: the result must be faithful, read back from the base file systems
	var want []byte
	if h != nil {
		h2 := hasher(cs.Hasher)
		h2.Write(data)
		want = h2.Sum(nil)
	}
	if cs.Func == "CopyFile" || (h == nil && cs.Func != "HashFile") {
		if sum != nil {
			dev = mk("digest", "a digest was returned without hasher")
			return
		}
	} else if !bytes.Equal(sum, want) {
		dev = mk("digest", fmt.Sprintf("returned digest %x, digest of the source bytes %x", sum, want))
		return
	} else {
		// the digest belongs to the caller: it is still the digest after the library has served other
		// calls (directly on the base file systems: the plan's counters are not touched)
		_, _ = avfs.HashFile(srcBase, srcPath, hasher("sha256"))
		_ = avfs.CopyFile(dstBase, srcBase, dstPath+".aftermath", srcPath)
		_ = dstBase.Remove(dstPath + ".aftermath")
		if !bytes.Equal(sum, want) {
			dev = mk("digest-overwritten", fmt.Sprintf("the returned digest was %x and reads %x after a later HashFile/CopyFile call: it shares memory with the library", want, sum))
			return
		}
	}
	if cs.Func == "HashFile" {
		return
	}
	// the verification reads as the administrator (the copy itself ran as the file system's user)
	if cs.Dst == "MemFS+user" {
		_ = dstBase.SetUser(dstBase.Idm().AdminUser())
	}
	got, err := dstBase.ReadFile(dstPath)
	if err != nil {
		dev = mk("destination", "nil error but the destination cannot be read: "+err.Error())
		return
	}
	if !bytes.Equal(got, data) {
		dev = mk("content", fmt.Sprintf("nil error but the destination holds %d bytes, the source %d (first difference at %d)", len(got), len(data), firstDiff(got, data)))
		return
	}
	info, err := dstBase.Stat(dstPath)
	if err != nil {
		dev = mk("destination", "nil error but Stat of the destination fails: "+err.Error())
		return
	}
	if info.Mode().Perm() != perm.Perm() {
		dev = mk("perm", fmt.Sprintf("nil error but the destination has permission %o, the source %o", info.Mode().Perm(), perm.Perm()))
		return
	}
	// set-user-ID, set-group-ID and sticky are permission bits too (chmod(2)); compared where both
	// sides keep them
	const special = os.ModeSetuid | os.ModeSetgid | os.ModeSticky
	if specialBits(cs.Src) && specialBits(cs.Dst) && info.Mode()&special != perm&special {
		dev = mk("perm", fmt.Sprintf("nil error but the destination has mode %v, the source %v", info.Mode(), perm))
	}
	return
}

func firstDiff(a, b []byte) int {
	for i := 0; i < len(a) && i < len(b); i++ {
		if a[i] != b[i] {
			return i
		}
	}
	return min(len(a), len(b))
}

func TestCheck(t *testing.T) {
	c := vt.New(t, "C16")
	defer c.Finish()
	scratch, err := os.MkdirTemp("/dev/shm", "verif-c16-")
	if err != nil {
		c.Inconclusive("scratch: " + err.Error())
		return
	}
	defer os.RemoveAll(scratch)

	for _, f := range c.ReplayFiles() {
		var cs Case
		if err := vt.LoadReplay(f, &cs); err != nil {
			c.Inconclusive("replay " + f + ": " + err.Error())
			continue
		}
		if dev, _, _, _, _ := run(c, cs, scratch); dev != nil {
			if k := c.KnownFor(dev); k != nil {
				c.WitnessLive(k.ID)
			}
			c.Report(dev, cs)
		}
	}
	if c.Replay != "" {
		return
	}
	sizes := []int{0, 1, 32767, 32768, 32769, 65536, 65537, 100000}
	// permission bits: some that the umask (022) would clear on creation, some it would not
	perms := []uint32{0o600, 0o644, 0o755, 0o400, 0o666, 0o777, 0o620, 0o602, 0o200}
	hashers := []string{"nil", "sha256", "fnv64"}
	if !c.Thorough() {
		perms = []uint32{0o644, 0o400, 0o666, 0o730}
	}
	idx, plans := 0, 0
	for _, src := range fsKinds {
		for _, dst := range fsKinds {
			for _, size := range sizes {
				for _, perm := range perms {
					for _, hs := range hashers {
						for _, fn := range []string{"CopyFileHash", "CopyFile", "HashFile"} {
							if fn == "CopyFile" && hs != "nil" || fn == "HashFile" && (hs == "nil" || dst != fsKinds[0]) {
								continue
							}
							idx++
							if idx%c.NShards != c.Shard {
								continue
							}
							// every other case starts with an existing destination
							p12 := perm
							if specialBits(src) && specialBits(dst) {
								// where both sides keep them, half of the cases carry special bits as well
								p12 |= []uint32{0, 0o4000, 0o2000, 0o6000, 0, 0o1000, 0, 0o4000}[idx%8]
							}
							if src == "MemFS+user" && p12&0o400 == 0 {
								// a source its owner cannot read: the copy is rightly refused, nothing to check
								c.Label("skipped:source-unreadable-for-the-user")
								continue
							}
							base := Case{Func: fn, Src: src, Dst: dst, Size: size, Perm: p12, Hasher: hs}
							base.Pre = fn != "HashFile" && vt.Hash64(fmt.Sprintf("%+v", base))%2 == 0
							base.Used = hs != "nil" && vt.Hash64(fmt.Sprintf("used %+v", base))%2 == 0
							base.Same = vt.Hash64(fmt.Sprintf("same %+v", base))%3 == 0
							base.Link = symlinks(src) && vt.Hash64(fmt.Sprintf("link %+v", base))%3 == 0
							dev, sc, dc, _, _ := run(c, base, scratch)
							plans++
							if dev != nil {
								c.Report(dev, base)
								continue
							}
							if fn != "HashFile" && dc[avfs.FnFileSync] == 0 {
								// the statement lists syncing among the steps whose failure is reported: a copy
								// that succeeds without ever syncing its destination (the plans below are those
								// the clean run invokes) has a sync failure it can never report
								d := vt.Dev("prop", "C16", "func", fn, "src", src, "dst", dst, "clause", "never-synced", "hasher", map[bool]string{true: "none", false: "given"}[hs == "nil"])
								d.Detail = fmt.Sprintf("%+v: the copy returned nil and the destination handle was never synced", base)
								c.Report(d, base)
								continue
							}
							// every single-fault plan on either side
							for _, side := range []string{"src", "dst"} {
								counts := sc
								if side == "dst" {
									counts = dc
								}
								for f, n := range counts {
									for k := 1; k <= n; k++ {
										cs := base
										cs.Side, cs.Fn, cs.K = side, int(f), k
										dev, _, _, fired, writes := run(c, cs, scratch)
										plans++
										if dev != nil {
											c.Report(dev, cs)
										}
										if fired && writes >= 1 {
											c.NonTrivial(vt.Hash64(fmt.Sprintf("%+v", cs)))
										}
										if plans%997 == 0 {
											c.Sample(fmt.Sprint(plans%5), map[string]any{"case": fmt.Sprintf("%+v", cs)})
										}
									}
								}
							}
						}
					}
				}
			}
		}
	}
	c.Extra("plans", int64(plans))
	c.Extra("domain", fmt.Sprintf("%d sizes x %d perms x %d^2 file-system pairs x hashers {nil, sha256, fnv64} x every (side, primitive, k) the clean run invokes", len(sizes), len(perms), len(fsKinds)))
	c.SetExhaustive(true)
}
