//go:build verif

package c07

import (
	"fmt"
	"io/fs"
	"os"
	"time"

	"github.com/avfs/avfs"

	"verif/harness/internal/sched"
)

// The methods of the API that are not file-system calls in the sense of the op language
// (lexical helpers, accessors, setters, identity helpers, Sub, File.Fd ...): "every VFS, File
// and identity-manager call ... returns, without panicking, for every argument". Found
// missing by measuring which functions of avfs the checks execute (tools/coverage_report.py).

type miscCall struct {
	name string
	f    func()
}

// miscCalls builds the calls for one file system; every call is independent.
func miscCalls(v avfs.VFS) []miscCall {
	var r []miscCall
	add := func(name string, f func()) { r = append(r, miscCall{name, f}) }
	strs := []string{"", "/", ".", "..", "//", "a", "/w/a", `\w\a`, `C:\w\a`, `C:`, `\\host\share`, `\\host\share\`, "a/../../b", "[", `\`, "*", "/w/f/under", "\x00", "é"}
	for _, p := range strs {
		p := p
		add(fmt.Sprintf("FromUnixPath(%q)", p), func() { _ = avfs.FromUnixPath(v, p) })
		add(fmt.Sprintf("Abs(%q)", p), func() { _, _ = v.Abs(p) })
		add(fmt.Sprintf("Base(%q)", p), func() { _ = v.Base(p) })
		add(fmt.Sprintf("Clean(%q)", p), func() { _ = v.Clean(p) })
		add(fmt.Sprintf("Dir(%q)", p), func() { _ = v.Dir(p) })
		add(fmt.Sprintf("FromSlash(%q)", p), func() { _ = v.FromSlash(p) })
		add(fmt.Sprintf("ToSlash(%q)", p), func() { _ = v.ToSlash(p) })
		add(fmt.Sprintf("IsAbs(%q)", p), func() { _ = v.IsAbs(p) })
		add(fmt.Sprintf("Split(%q)", p), func() { _, _ = v.Split(p) })
		add(fmt.Sprintf("SplitAbs(%q)", p), func() { _, _ = avfs.SplitAbs(v, p) })
		add(fmt.Sprintf("VolumeName(%q)", p), func() { _ = avfs.VolumeName(v, p) })
		add(fmt.Sprintf("Sub(%q)", p), func() { _, _ = v.Sub(p) })
		add(fmt.Sprintf("HomeDirUser(%q)", p), func() { _ = avfs.HomeDirUser(v, p, v.User()) })
		add(fmt.Sprintf("TempDirUser(%q)", p), func() { _ = avfs.TempDirUser(v, p, p) })
		add(fmt.Sprintf("MkHomeDir(%q)", p), func() { _, _ = avfs.MkHomeDir(v, p, v.User()) })
		add(fmt.Sprintf("SetUserByName(%q)", p), func() { _ = avfs.SetUserByName(v, p) })
		add(fmt.Sprintf("Exists(%q)", p), func() { _, _ = avfs.Exists(v, p) })
		add(fmt.Sprintf("IsEmpty(%q)", p), func() { _, _ = avfs.IsEmpty(v, p) })
		add(fmt.Sprintf("PathIterator(%q)", p), func() {
			pi := avfs.NewPathIterator[avfs.VFS](v, p)
			for i := 0; pi.Next() && i < 50; i++ {
				_, _, _, _, _ = pi.Part(), pi.Left(), pi.Right(), pi.LeftPart(), pi.RightPart()
				_, _, _, _ = pi.Start(), pi.End(), pi.IsLast(), pi.VolumeName()
			}
		})
		for _, q := range []string{"", "/", "a", `\\host\share\`, "[", "*"} {
			q := q
			add(fmt.Sprintf("Join(%q,%q)", p, q), func() { _ = v.Join(p, q) })
			add(fmt.Sprintf("Rel(%q,%q)", p, q), func() { _, _ = v.Rel(p, q) })
			add(fmt.Sprintf("Match(%q,%q)", p, q), func() { _, _ = v.Match(p, q) })
		}
	}
	for _, ch := range []uint8{0, '/', '\\', ':', 255} {
		ch := ch
		add(fmt.Sprintf("IsPathSeparator(%d)", ch), func() { _ = v.IsPathSeparator(ch) })
	}
	add("accessors", func() {
		_, _, _, _ = v.Name(), v.Type(), v.OSType(), v.Features()
		_, _, _, _ = v.HasFeature(avfs.FeatSymlink), v.PathSeparator(), v.TempDir(), v.UMask()
		_, _ = v.Idm(), v.User()
		_, _ = v.Getwd()
	})
	for _, m := range []fs.FileMode{0, 0o22, 0o777, 0o7777, fs.ModeDir | 0o777, ^fs.FileMode(0)} {
		m := m
		add(fmt.Sprintf("SetUMask(%o)", m), func() { _ = v.SetUMask(m); _ = v.SetUMask(0o022) })
	}
	add("SetUser(current)", func() { _ = v.SetUser(v.User()) })
	// (nil users and nil FileInfo values are not arguments the property speaks of: only nil handles)
	add("SetUser(admin)", func() { _ = v.SetUser(v.Idm().AdminUser()) })
	add("SetIdm(current)", func() { _ = v.SetIdm(v.Idm()) })
	add("SameFile(nil,nil)", func() { _ = v.SameFile(nil, nil) })
	add("SameFile(info,nil)", func() {
		if fi, err := v.Stat(v.TempDir()); err == nil {
			_ = v.SameFile(fi, nil)
			_ = v.SameFile(nil, fi)
			_ = v.SameFile(fi, fi)
			_ = v.ToSysStat(fi)
		}
	})
	// File.Fd on an open, a closed and a refused handle
	add("Fd", func() {
		f, err := v.OpenFile(v.Join(v.TempDir(), "fdprobe"), os.O_RDWR|os.O_CREATE, 0o644)
		_ = f.Fd()
		if err == nil {
			_ = f.Close()
			_ = f.Fd()
		}
		g, _ := v.OpenFile(v.Join(v.TempDir(), "missing", "x"), os.O_RDONLY, 0)
		_ = g.Fd()
	})
	return r
}

// runMisc runs one call as the only worker of the scheduler (a self-deadlock is decided
// exactly) and reports how it ended: "", "PANIC: ...", or the scheduler's verdict.
func runMisc(mc miscCall) string {
	res := ""
	s := sched.New(func() {
		defer func() {
			if p := recover(); p != nil {
				res = fmt.Sprintf("PANIC: %v", p)
			}
		}()
		mc.f()
	})
	// a call that blocks on a lock is decided by the scheduler; one that spins without ever
	// touching a lock would keep the scheduler waiting for ever: these calls are path helpers and
	// accessors (microseconds), a minute without return is an endless loop on any machine
	done := make(chan sched.Verdict, 1)
	go func() { done <- s.Run(sched.NonPreemptive) }()
	select {
	case v := <-done:
		if v.Kind != "ok" {
			return v.Kind + ":" + v.Shape + " " + v.Detail
		}
		return res
	case <-time.After(miscPatience):
		return "hang:loop no return within " + miscPatience.String() + " (no lock involved: the call is spinning)"
	}
}

var miscPatience = 60 * time.Second
