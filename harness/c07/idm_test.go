//go:build verif

package c07

import (
	"fmt"
	"math"
	"strconv"
	"strings"

	"github.com/avfs/avfs"
	"github.com/avfs/avfs/idm/memidm"

	"verif/harness/internal/sched"
	"verif/harness/internal/vt"
)

var idmNames = []string{"", "root", "Administrators", "u", "g", strings.Repeat("n", 300), "a/b", "\x00"}
var idmIds = []int{math.MinInt32, -1, 0, 1, 1000, 1001, math.MaxInt32}

// idmCalls enumerates every identity-manager call on adversarial arguments,
// written "Method:arg1:arg2".
func idmCalls() []string {
	var r []string
	for _, n := range idmNames {
		r = append(r, "AddGroup:"+n, "DelGroup:"+n, "DelUser:"+n, "LookupGroup:"+n, "LookupUser:"+n)
		for _, g := range idmNames {
			r = append(r, "AddUser:"+n+":"+g)
		}
	}
	for _, id := range idmIds {
		r = append(r, "LookupGroupId:"+strconv.Itoa(id), "LookupUserId:"+strconv.Itoa(id))
	}
	r = append(r, "AdminUser", "AdminGroup")
	return r
}

func idmDo(idm avfs.IdentityMgr, call string) {
	parts := strings.SplitN(call, ":", 3)
	arg := func(i int) string {
		if i < len(parts) {
			return parts[i]
		}
		return ""
	}
	switch parts[0] {
	case "AddGroup":
		g, err := idm.AddGroup(arg(1))
		if err == nil {
			_, _ = g.Name(), g.Gid()
		}
	case "AddUser":
		u, err := idm.AddUser(arg(1), arg(2))
		if err == nil {
			_, _, _, _ = u.Name(), u.Uid(), u.Gid(), u.IsAdmin()
		}
	case "DelGroup":
		_ = idm.DelGroup(arg(1))
	case "DelUser":
		_ = idm.DelUser(arg(1))
	case "LookupGroup":
		_, _ = idm.LookupGroup(arg(1))
	case "LookupUser":
		_, _ = idm.LookupUser(arg(1))
	case "LookupGroupId":
		n, _ := strconv.Atoi(arg(1))
		_, _ = idm.LookupGroupId(n)
	case "LookupUserId":
		n, _ := strconv.Atoi(arg(1))
		_, _ = idm.LookupUserId(n)
	case "AdminUser":
		u := idm.AdminUser()
		_, _ = u.Name(), u.IsAdmin()
	case "AdminGroup":
		_ = idm.AdminGroup().Name()
	}
}

func idmRun(calls []string) *vt.Deviation {
	idm := memidm.New()
	var cur string
	var pan any
	s := sched.New(func() {
		defer func() { pan = recover() }()
		for _, c := range calls {
			cur = c
			idmDo(idm, c)
		}
	})
	v := s.Run(sched.NonPreemptive)
	verdict := ""
	switch {
	case pan != nil:
		verdict = "panic"
	case v.Kind != "ok":
		verdict = v.Kind + ":" + v.Shape
	default:
		return nil
	}
	d := vt.Dev("prop", "C07", "fs", "MemIdm", "op", strings.SplitN(cur, ":", 2)[0], "verdict", verdict)
	d.Detail = fmt.Sprintf("MemIdm %q after %v: %v %s", cur, calls, pan, v.Detail)
	return d
}

func idmAdversarial(c *vt.Ctx) {
	calls := idmCalls()
	n := 0
	for i, a := range calls {
		for j, b := range calls {
			if (i*len(calls)+j)%c.NShards != c.Shard {
				continue
			}
			if !c.Thorough() && (i+j)%7 != 0 {
				continue
			}
			n++
			seq := []string{"AddGroup:g", "AddUser:u:g", a, b}
			c.Eval(1)
			if dev := idmRun(seq); dev != nil {
				c.Report(dev, Case{Kind: "idm", FS: "MemIdm", Idm: seq})
			}
		}
	}
	c.Extra("idm_pairs", fmt.Sprintf("%d ordered pairs of %d identity-manager calls on adversarial names and ids (this shard)", n, len(calls)))
}
