//go:build verif

// C07 - every call returns: no deadlock, hang or panic.
package c07

import (
	"fmt"
	"io/fs"
	"math"
	"os"
	"reflect"
	"sort"
	"strings"
	"testing"

	"github.com/avfs/avfs"
	"github.com/avfs/avfs/idm/memidm"
	"github.com/avfs/avfs/vfs/basepathfs"
	"github.com/avfs/avfs/vfs/failfs"
	"github.com/avfs/avfs/vfs/memfs"
	"github.com/avfs/avfs/vfs/orefafs"
	"github.com/avfs/avfs/vfs/rofs"
	"pgregory.net/rapid"

	"verif/harness/internal/conc"
	"verif/harness/internal/fsx"
	"verif/harness/internal/gen"
	"verif/harness/internal/sched"
	"verif/harness/internal/vt"
)

// Case is a replayable single-worker C07 case.
type Case struct {
	Kind   string        `json:"kind"` // "call" | "conc" | "idm"
	FS     string        `json:"fs"`
	Prefix []fsx.Op      `json:"prefix,omitempty"`
	Ops    []fsx.Op      `json:"ops,omitempty"`
	Conc   *conc.Program `json:"conc,omitempty"`
	Idm    []string      `json:"idm,omitempty"`
}

var fsKinds = []string{"MemFS", "OrefaFS", "MemFS-win", "OrefaFS-win", "RoFS(MemFS)", "RoFS(OrefaFS)", "BasePathFS(MemFS)", "BasePathFS(OrefaFS)", "FailFS(MemFS)", "FailFS(OrefaFS)"}

// build creates the file system of the kind with the prefix applied to its base.
func build(kind string, prefix []fsx.Op) (avfs.VFS, error) {
	var base avfs.VFS
	win := strings.Contains(kind, "-win")
	ost := avfs.OsLinux
	if win {
		ost = avfs.OsWindows
	}
	if strings.Contains(kind, "OrefaFS") {
		base = orefafs.NewWithOptions(&orefafs.Options{OSType: ost})
	} else {
		base = memfs.NewWithOptions(&memfs.Options{OSType: ost, Idm: memidm.NewWithOptions(&memidm.Options{OSType: ost})})
	}
	_ = base.SetUMask(0o022)
	root := "/"
	if win && base.OSType() == avfs.OsWindows {
		root = `C:\`
	}
	_ = base.Chdir(root)
	var target avfs.VFS = base
	if strings.HasPrefix(kind, "BasePathFS") {
		// the tree is built through the wrapper below /b of the base, so that
		// the same virtual paths work as on the other configurations
		if err := base.MkdirAll(base.Join(root, "b"), 0o755); err != nil {
			return nil, err
		}
		bp, err := basepathfs.NewWithErr(base, base.Join(root, "b"))
		if err != nil {
			return nil, err
		}
		target = bp
	}
	_ = target.MkdirAll(target.Join(root, "w"), 0o755)
	r := fsx.NewRunner(target)
	for _, o := range prefix {
		o = retarget(o, base)
		_ = r.Do(o)
	}
	r.CloseAll()
	switch {
	case strings.HasPrefix(kind, "RoFS"):
		return rofs.New(base), nil
	case strings.HasPrefix(kind, "BasePathFS"):
		return target, nil
	case strings.HasPrefix(kind, "FailFS"):
		f := failfs.New(base)
		_ = f.SetFailFunc(failfs.OkFunc)
		return f, nil
	}
	return base, nil
}

// retarget rewrites the /-paths of an op for a Windows-typed file system.
func retarget(o fsx.Op, v avfs.VFS) fsx.Op {
	if v.OSType() != avfs.OsWindows {
		return o
	}
	conv := func(p string) string {
		if strings.HasPrefix(p, "/") && !strings.HasPrefix(p, "//") {
			return `C:` + strings.ReplaceAll(p, "/", `\`)
		}
		return p
	}
	o.P = conv(o.P)
	if o.K != "Symlink" {
		o.P2 = conv(o.P2)
	}
	return o
}

// advPaths: the adversarial path operands with their class.
var advPaths = []struct{ p, cl string }{
	{"", "empty"}, {"/", "root"}, {".", "dot"}, {"..", "dotdot"}, {"//", "dslash"}, {"a", "rel"}, {"../w/a", "rel-dotdot"},
	{"/w/a", "dir"}, {"/w/a/x", "descendant"}, {"/w/f", "file"}, {"/w/g", "alias"}, {"/w/f/under", "under-file"}, {"/w/missing", "missing"},
	{`\w\a`, "othersep"}, {`C:\w\a`, "volume"}, {`D:\x`, "missing-volume"}, {`D:`, "bare-volume"}, {`\\host\share\x`, "unc"}, {"/w/" + strings.Repeat("n", 300), "long"}, {"/w/l", "symlink"}, {"/w/loop", "loop"},
}

// advPrefix builds the tree the adversarial paths refer to.
func advPrefix(symlinks bool) []fsx.Op {
	p := []fsx.Op{
		{K: "Mkdir", P: "/w/a", Perm: 0o755}, {K: "Mkdir", P: "/w/a/x", Perm: 0o755}, {K: "WriteFile", P: "/w/a/x/y", Data: "y", Perm: 0o644},
		{K: "WriteFile", P: "/w/f", Data: "0123456789", Perm: 0o644}, {K: "Link", P: "/w/f", P2: "/w/g"},
	}
	if symlinks {
		p = append(p, fsx.Op{K: "Symlink", P: "/w/a", P2: "/w/l"}, fsx.Op{K: "Symlink", P: "loop", P2: "/w/loop"})
	}
	return p
}

var advSizes = []int64{math.MinInt64, -1, 0, 1, 9, 10, 11, 1 << 16, math.MaxInt64 - 1, math.MaxInt64}

func sizeClass(v int64) string {
	switch {
	case v == math.MinInt64:
		return "min"
	case v < 0:
		return "neg"
	case v >= math.MaxInt64-1:
		return "max"
	case v > 1<<15:
		return "big"
	case v > 10:
		return ">size"
	case v == 10:
		return "=size"
	}
	return "<size"
}

// pathCalls enumerates every path-taking call on adversarial operands.
func pathCalls() []fsx.Op {
	var r []fsx.Op
	one := []string{"Mkdir", "MkdirAll", "Create", "ReadFile", "Remove", "RemoveAll", "Readlink", "Chdir", "Stat", "Lstat", "ReadDir", "EvalSymlinks", "WalkDir", "Glob", "Getwd"}
	for _, ap := range advPaths {
		for _, k := range one {
			r = append(r, fsx.Op{K: k, P: ap.p, Perm: 0o755})
		}
		r = append(r, fsx.Op{K: "WriteFile", P: ap.p, Data: "d", Perm: 0o644}, fsx.Op{K: "Chmod", P: ap.p, Perm: 0o7777},
			fsx.Op{K: "Chown", P: ap.p, Uid: -1, Gid: math.MaxInt32}, fsx.Op{K: "Lchown", P: ap.p, Uid: math.MinInt32, Gid: 0},
			fsx.Op{K: "Chtimes", P: ap.p, MT: -1 << 40}, fsx.Op{K: "CreateTemp", P: ap.p, P2: "t*"}, fsx.Op{K: "MkdirTemp", P: ap.p, P2: "a/b"},
			fsx.Op{K: "CreateTemp", P: ap.p, P2: strings.Repeat("*", 3)})
		for _, sz := range []int64{math.MinInt64, -1, 0, 11, 1 << 16, math.MaxInt64} {
			r = append(r, fsx.Op{K: "Truncate", P: ap.p, Size: sz})
		}
		for _, fl := range []int{os.O_RDONLY, os.O_RDWR | os.O_CREATE | os.O_EXCL, os.O_WRONLY | os.O_TRUNC | os.O_APPEND, 3, -1, 0x7fffffff} {
			r = append(r, fsx.Op{K: "Open", P: ap.p, Flag: fl, Perm: 0o7777, H: 0})
		}
		for _, bp := range advPaths {
			r = append(r, fsx.Op{K: "Rename", P: ap.p, P2: bp.p}, fsx.Op{K: "Link", P: ap.p, P2: bp.p}, fsx.Op{K: "Symlink", P: ap.p, P2: bp.p})
		}
	}
	return r
}

// handleCalls enumerates adversarial calls on a handle in slot 0.
func handleCalls() []fsx.Op {
	var r []fsx.Op
	for _, n := range []int{0, 1, 64} {
		r = append(r, fsx.Op{K: "FRead", H: 0, N: n})
		for _, off := range advSizes {
			r = append(r, fsx.Op{K: "FReadAt", H: 0, N: n, Off: off})
		}
	}
	for _, d := range []string{"", "xy"} {
		r = append(r, fsx.Op{K: "FWrite", H: 0, Data: d}, fsx.Op{K: "FWriteString", H: 0, Data: d})
		for _, off := range advSizes {
			if off == 1<<16 && d != "" {
				// allocates 64 KiB: fine
			}
			r = append(r, fsx.Op{K: "FWriteAt", H: 0, Data: d, Off: off})
		}
	}
	for _, wh := range []int{-1, 0, 1, 2, 3, 4, 5} {
		for _, off := range advSizes {
			r = append(r, fsx.Op{K: "FSeek", H: 0, Off: off, Whence: wh})
		}
	}
	for _, sz := range advSizes {
		r = append(r, fsx.Op{K: "FTruncate", H: 0, Size: sz})
	}
	for _, n := range []int{-1, 0, 1, 2} {
		r = append(r, fsx.Op{K: "FReadDir", H: 0, N: n}, fsx.Op{K: "FReaddirnames", H: 0, N: n})
	}
	r = append(r, fsx.Op{K: "FStat", H: 0}, fsx.Op{K: "FSync", H: 0}, fsx.Op{K: "FChmod", H: 0, Perm: 0o7777}, fsx.Op{K: "FChown", H: 0, Uid: -1, Gid: -1},
		fsx.Op{K: "FChdir", H: 0}, fsx.Op{K: "FClose", H: 0}, fsx.Op{K: "FName", H: 0})
	return r
}

// handleStates: how slot 0 is prepared before the handle call.
var handleStates = []struct {
	name string
	ops  []fsx.Op
}{
	{"file-rw", []fsx.Op{{K: "Open", P: "/w/f", Flag: os.O_RDWR, H: 0}}},
	{"file-ro", []fsx.Op{{K: "Open", P: "/w/f", Flag: os.O_RDONLY, H: 0}}},
	{"file-append", []fsx.Op{{K: "Open", P: "/w/f", Flag: os.O_WRONLY | os.O_APPEND, H: 0}}},
	{"dir", []fsx.Op{{K: "Open", P: "/w/a", Flag: os.O_RDONLY, H: 0}}},
	{"failed-open", []fsx.Op{{K: "Open", P: "/w/missing", Flag: os.O_RDONLY, H: 0}}},
	{"closed", []fsx.Op{{K: "Open", P: "/w/f", Flag: os.O_RDWR, H: 0}, {K: "FClose", H: 0}}},
	{"seek-far", []fsx.Op{{K: "Open", P: "/w/f", Flag: os.O_RDWR, H: 0}, {K: "FSeek", H: 0, Off: math.MaxInt64 - 5, Whence: 0}}},
	// two seeks whose sum leaves the int64 range: the second must be refused and leave a usable offset
	{"seek-sum-overflow", []fsx.Op{{K: "Open", P: "/w/f", Flag: os.O_RDWR, H: 0}, {K: "FSeek", H: 0, Off: 1 << 62, Whence: 0}, {K: "FSeek", H: 0, Off: 1 << 62, Whence: 1}}},
	{"seek-far-then-cur", []fsx.Op{{K: "Open", P: "/w/f", Flag: os.O_RDWR, H: 0}, {K: "FSeek", H: 0, Off: math.MaxInt64 - 5, Whence: 0}, {K: "FSeek", H: 0, Off: math.MaxInt64, Whence: 1}}},
	{"seek-end-overflow", []fsx.Op{{K: "Open", P: "/w/f", Flag: os.O_RDWR, H: 0}, {K: "FSeek", H: 0, Off: math.MaxInt64, Whence: 2}, {K: "FSeek", H: 0, Off: math.MinInt64, Whence: 1}}},
	{"removed", []fsx.Op{{K: "Open", P: "/w/f", Flag: os.O_RDWR, H: 0}, {K: "Remove", P: "/w/f"}, {K: "Remove", P: "/w/g"}}},
	{"created", []fsx.Op{{K: "Create", P: "/w/new", H: 0}}},
	{"temp", []fsx.Op{{K: "CreateTemp", P: "/w", P2: "t*", H: 0}}},
}

// runSingle runs the ops as the only worker of the scheduler: a self-deadlock
// is decided exactly, an endless loop by the lock-acquisition budget.
func runSingle(v avfs.VFS, ops []fsx.Op) (outs []fsx.Out, verdict sched.Verdict) {
	outs, verdict, _ = runSingleR(v, ops)
	return outs, verdict
}

func runSingleR(v avfs.VFS, ops []fsx.Op) (outs []fsx.Out, verdict sched.Verdict, nilHandle map[int]bool) {
	nilHandle = map[int]bool{}
	r := fsx.NewRunner(v)
	r.NoOwner = true
	r.Guard = 0 // the scheduler decides
	outs = make([]fsx.Out, len(ops))
	s := sched.New(func() {
		for i, o := range ops {
			outs[i] = fsx.Out{Err: "unfinished"}
			outs[i] = r.Do(retarget(o, v))
		}
	})
	verdict = s.Run(sched.NonPreemptive)
	for slot, h := range r.Handles {
		if h == nil || reflect.ValueOf(h).IsNil() {
			nilHandle[slot] = true
		}
	}
	if verdict.Kind == "ok" {
		func() {
			defer func() { _ = recover() }()
			r.CloseAll()
		}()
	}
	return outs, verdict, nilHandle
}

func classOf(p string) string {
	for _, ap := range advPaths {
		if ap.p == p {
			return ap.cl
		}
	}
	return "other"
}

// judge turns outcomes + verdict into a deviation.
func judge(kind, hstate string, ops []fsx.Op, outs []fsx.Out, v sched.Verdict, nilHandle map[int]bool) *vt.Deviation {
	last := ops[len(ops)-1]
	mk := func(verdict, detail string, o fsx.Op) *vt.Deviation {
		d := vt.Dev("prop", "C07", "fs", kind, "op", o.K, "verdict", verdict)
		if o.P != "" || isPathKind(o.K) {
			d.Fields["a"] = classOf(o.P)
		}
		if o.K == "Rename" || o.K == "Link" || o.K == "Symlink" {
			d.Fields["b"] = classOf(o.P2)
		}
		if strings.HasPrefix(o.K, "F") {
			d.Fields["hstate"] = hstate
		}
		switch o.K {
		case "Truncate", "FTruncate":
			d.Fields["params"] = "size:" + sizeClass(o.Size)
		case "FReadAt", "FWriteAt":
			d.Fields["params"] = "off:" + sizeClass(o.Off)
		case "FSeek":
			d.Fields["params"] = fmt.Sprintf("whence=%d,off:%s", o.Whence, sizeClass(o.Off))
		}
		d.Detail = fmt.Sprintf("%s %s: %s", kind, o, detail)
		return d
	}
	if v.Kind == "deadlock" || v.Kind == "hang:budget" {
		// which op was running
		for i, o := range outs {
			if o.Err == "unfinished" {
				return mk(v.Kind+":"+v.Shape, v.Detail, ops[i])
			}
		}
		return mk(v.Kind+":"+v.Shape, v.Detail, last)
	}
	for i, o := range outs {
		if o.Err == "PANIC" {
			if ops[i].K == "FName" && o.Val == "nil-handle" {
				continue // the one sanctioned panic: File.Name on a nil handle
			}
			return mk("panic", "panicked: "+o.Note, ops[i])
		}
	}
	return nil
}

func isPathKind(k string) bool { return !strings.HasPrefix(k, "F") && k != "Getwd" }

func TestCheck(t *testing.T) {
	c := vt.New(t, "C07")
	defer c.Finish()

	for _, f := range c.ReplayFiles() {
		var cs Case
		if err := vt.LoadReplay(f, &cs); err != nil {
			c.Inconclusive("replay " + f + ": " + err.Error())
			continue
		}
		if dev := replay(c, cs); dev != nil {
			if k := c.KnownFor(dev); k != nil {
				c.WitnessLive(k.ID)
			}
			c.Report(dev, cs)
		}
	}
	if c.Replay != "" {
		return
	}

	// (a) adversarial arguments, exhaustive over the matrix
	pc := pathCalls()
	hc := handleCalls()
	idx := 0
	for _, kind := range fsKinds {
		prefix := advPrefix(strings.Contains(kind, "MemFS") && !strings.HasPrefix(kind, "BasePathFS"))
		run := func(hstate string, ops []fsx.Op) {
			idx++
			if idx%c.NShards != c.Shard {
				return
			}
			v, err := build(kind, prefix)
			if err != nil {
				c.Inconclusive("build " + kind + ": " + err.Error())
				return
			}
			outs, verdict, nh := runSingleR(v, ops)
			c.Eval(1)
			last := ops[len(ops)-1]
			if verdict.Steps > 1 {
				c.NonTrivial(vt.Hash64(kind, hstate, last.String()))
			}
			c.Label("verdict:" + verdict.Kind)
			if dev := judge(kind, hstate, ops, outs, verdict, nh); dev != nil {
				c.Report(dev, Case{Kind: "call", FS: kind, Prefix: prefix, Ops: ops})
			}
		}
		for _, o := range pc {
			run("", []fsx.Op{o})
			if c.Thorough() {
				// the same call with the working directory inside the tree
				run("", []fsx.Op{{K: "Chdir", P: "/w/a"}, o})
			}
		}
		for _, hs := range handleStates {
			for _, o := range hc {
				run(hs.name, append(append([]fsx.Op{}, hs.ops...), o))
			}
		}
		c.Sample("adv-"+kind, map[string]any{"fs": kind, "call": pc[(idx*7)%len(pc)].String(), "handle_call": hc[(idx*3)%len(hc)].String()})
	}
	// (a3) every other method of the API (misc_test.go)
	nmisc := 0
	for _, kind := range fsKinds {
		v, err := build(kind, advPrefix(strings.Contains(kind, "MemFS") && !strings.HasPrefix(kind, "BasePathFS")))
		if err != nil {
			continue
		}
		for i, mc := range miscCalls(v) {
			if i%c.NShards != c.Shard {
				continue
			}
			nmisc++
			c.Eval(1)
			if res := runMisc(mc); res != "" {
				verdict := "panic"
				if !strings.HasPrefix(res, "PANIC") {
					verdict = strings.SplitN(res, " ", 2)[0]
				}
				d := vt.Dev("prop", "C07", "fs", kind, "op", strings.SplitN(mc.name, "(", 2)[0], "verdict", verdict, "clause", "misc")
				d.Detail = fmt.Sprintf("%s %s: %s", kind, mc.name, res)
				c.Report(d, Case{Kind: "misc", FS: kind, Idm: []string{mc.name}})
				if verdict == "hang:loop" {
					// the spinning goroutine still owns the scheduler: nothing else can be run in this process
					c.Extra("aborted", "a call spins without returning; the shard stops here")
					c.Finish()
					os.Exit(1)
				}
			}
			c.NonTrivial(vt.Hash64("misc", kind, mc.name))
		}
	}
	c.Extra("misc_calls", fmt.Sprintf("%d calls of lexical helpers, accessors, setters, identity helpers, Sub, Fd on %d file-system configurations (this shard)", nmisc, len(fsKinds)))
	c.Extra("adversarial_matrix", fmt.Sprintf("%d file-system configurations x (%d path calls + %d handle states x %d handle calls)", len(fsKinds), len(pc), len(handleStates), len(hc)))
	c.SetExhaustive(true)

	// (a') random histories followed by adversarial calls
	c.Rapid("adv-random", c.Pick(1500, 40000), func(t *rapid.T) *vt.Failure {
		kind := rapid.SampledFrom(fsKinds).Draw(t, "fs")
		cfg := gen.Config{Symlinks: strings.Contains(kind, "MemFS") && !strings.HasPrefix(kind, "BasePathFS"), Root: true, Base: "/w", NoTemp: false}
		var ops []fsx.Op
		for n := rapid.IntRange(0, 12).Draw(t, "n"); n > 0; n-- {
			ops = append(ops, cfg.Draw(t)...)
		}
		hs := handleStates[rapid.IntRange(0, len(handleStates)-1).Draw(t, "hstate")]
		tail := []fsx.Op{}
		prepared := false
		for n := rapid.IntRange(1, 4).Draw(t, "adv"); n > 0; n-- {
			if rapid.Bool().Draw(t, "handle") {
				if !prepared {
					// a slot that never held a handle is a nil interface: a harness artefact, not a case
					tail = append(tail, hs.ops...)
					prepared = true
				}
				tail = append(tail, hc[rapid.IntRange(0, len(hc)-1).Draw(t, "hc")])
			} else {
				tail = append(tail, pc[rapid.IntRange(0, len(pc)-1).Draw(t, "pc")])
			}
		}
		all := append(append(advPrefix(cfg.Symlinks), ops...), tail...)
		v, err := build(kind, nil)
		if err != nil {
			return nil
		}
		outs, verdict, nh := runSingleR(v, all)
		c.Eval(1)
		c.Label("fs:" + kind)
		if verdict.Steps > 1 {
			c.NonTrivial(vt.Hash64(kind, fmt.Sprint(len(all)), all[len(all)-1].String(), fmt.Sprint(verdict.Steps)))
		}
		if dev := judge(kind, hs.name, all, outs, verdict, nh); dev != nil {
			return &vt.Failure{Dev: dev, Replay: Case{Kind: "call", FS: kind, Ops: all}}
		}
		return nil
	})

	// (a'') handle histories: calls on open handles (two slots: a directory and a file, reopened
	// at will) interleaved with namespace changes to what the handles refer to - entries
	// removed, added or renamed behind a directory cursor, the file truncated, unlinked or
	// replaced under an offset. Stale cursors and snapshots are where indexes go out of range.
	dirOps := []fsx.Op{}
	for _, n := range []int{-1, 0, 1, 2, 3} {
		dirOps = append(dirOps, fsx.Op{K: "FReadDir", H: 0, N: n}, fsx.Op{K: "FReaddirnames", H: 0, N: n})
	}
	dirOps = append(dirOps, fsx.Op{K: "FSeek", H: 0, Off: 0, Whence: 0}, fsx.Op{K: "FStat", H: 0}, fsx.Op{K: "FClose", H: 0},
		fsx.Op{K: "Open", P: "/w/a", Flag: os.O_RDONLY, H: 0}, fsx.Op{K: "Open", P: "/w/a", Flag: os.O_RDONLY, H: 0}, fsx.Op{K: "Open", P: "/w", Flag: os.O_RDONLY, H: 0})
	fileOps := []fsx.Op{
		{K: "FRead", H: 1, N: 4}, {K: "FRead", H: 1, N: 64}, {K: "FWrite", H: 1, Data: "abc"}, {K: "FReadAt", H: 1, N: 4, Off: 8}, {K: "FWriteAt", H: 1, Data: "z", Off: 12},
		{K: "FSeek", H: 1, Off: 0, Whence: 2}, {K: "FSeek", H: 1, Off: -3, Whence: 1}, {K: "FSeek", H: 1, Off: 7, Whence: 0},
		{K: "FSeek", H: 1, Off: 1 << 62, Whence: 1}, {K: "FSeek", H: 1, Off: 1 << 62, Whence: 0}, {K: "FSeek", H: 1, Off: math.MaxInt64, Whence: 2}, {K: "FSeek", H: 1, Off: math.MinInt64, Whence: 1}, {K: "FTruncate", H: 1, Size: 3}, {K: "FTruncate", H: 1, Size: 0},
		{K: "FStat", H: 1}, {K: "FSync", H: 1}, {K: "FClose", H: 1}, {K: "FReadAll", H: 1},
		{K: "Open", P: "/w/f", Flag: os.O_RDWR, H: 1}, {K: "Open", P: "/w/f", Flag: os.O_RDWR | os.O_APPEND, H: 1}, {K: "Open", P: "/w/g", Flag: os.O_RDONLY, H: 1}, {K: "Open", P: "/w/a/p", Flag: os.O_RDWR | os.O_CREATE, Perm: 0o644, H: 1},
	}
	nsOps := []fsx.Op{
		{K: "Remove", P: "/w/a/p"}, {K: "Remove", P: "/w/a/q"}, {K: "RemoveAll", P: "/w/a/x"}, {K: "WriteFile", P: "/w/a/r", Data: "r", Perm: 0o644}, {K: "Mkdir", P: "/w/a/s", Perm: 0o755},
		{K: "Rename", P: "/w/a/p", P2: "/w/a/t"}, {K: "Rename", P: "/w/a/q", P2: "/w/q"}, {K: "RemoveAll", P: "/w/a"}, {K: "Mkdir", P: "/w/a", Perm: 0o755}, {K: "Rename", P: "/w/a", P2: "/w/b"},
		{K: "Truncate", P: "/w/f", Size: 0}, {K: "Truncate", P: "/w/f", Size: 2}, {K: "Remove", P: "/w/f"}, {K: "Remove", P: "/w/g"}, {K: "WriteFile", P: "/w/f", Data: "new content", Perm: 0o644},
		{K: "Rename", P: "/w/a/p", P2: "/w/f"}, {K: "Open", P: "/w/f", Flag: os.O_WRONLY | os.O_TRUNC, H: 2}, {K: "Chmod", P: "/w/a", Perm: 0}, {K: "Chmod", P: "/w/f", Perm: 0},
	}
	c.Rapid("handle-histories", c.Pick(4000, 120000), func(t *rapid.T) *vt.Failure {
		kind := rapid.SampledFrom(fsKinds).Draw(t, "fs")
		all := append(advPrefix(strings.Contains(kind, "MemFS") && !strings.HasPrefix(kind, "BasePathFS")),
			fsx.Op{K: "WriteFile", P: "/w/a/p", Data: "pp", Perm: 0o644}, fsx.Op{K: "WriteFile", P: "/w/a/q", Data: "qq", Perm: 0o644},
			fsx.Op{K: "Open", P: "/w/a", Flag: os.O_RDONLY, H: 0}, fsx.Op{K: "Open", P: "/w/f", Flag: os.O_RDWR, H: 1})
		shrunk, listed := false, false
		for n := rapid.IntRange(2, 14).Draw(t, "n"); n > 0; n-- {
			var o fsx.Op
			switch rapid.IntRange(0, 5).Draw(t, "group") {
			case 0, 1:
				o = rapid.SampledFrom(dirOps).Draw(t, "dir")
				if strings.HasPrefix(o.K, "FRead") {
					if shrunk && listed {
						c.Label("hh:list-after-shrink-behind-cursor")
					}
					listed = true
				}
			case 2, 3:
				o = rapid.SampledFrom(fileOps).Draw(t, "file")
			default:
				o = rapid.SampledFrom(nsOps).Draw(t, "ns")
				if o.K == "Remove" || o.K == "RemoveAll" || o.K == "Rename" {
					shrunk = listed
				}
			}
			all = append(all, o)
		}
		v, err := build(kind, nil)
		if err != nil {
			return nil
		}
		outs, verdict, nh := runSingleR(v, all)
		c.Eval(1)
		c.Label("hh-fs:" + kind)
		if verdict.Steps > 1 && shrunk {
			c.NonTrivial(vt.Hash64(kind, fmt.Sprint(all)))
		}
		if dev := judge(kind, "mixed", all, outs, verdict, nh); dev != nil {
			return &vt.Failure{Dev: dev, Replay: Case{Kind: "call", FS: kind, Ops: all}}
		}
		return nil
	})

	// (a-user) the refusals for lack of permission: the same calls by a user who may not search, read or
	// write what they name (the error paths of every method that checks a permission)
	{
		n := 0
		for i, ops := range userCases() {
			if i%c.NShards != c.Shard {
				continue
			}
			n++
			c.Eval(1)
			c.NonTrivial(vt.Hash64("user", fmt.Sprint(ops)))
			if dev := userRun(ops); dev != nil {
				c.Report(dev, Case{Kind: "user", FS: "MemFS+user", Ops: ops})
			}
		}
		c.Extra("as_user", fmt.Sprintf("%d calls and handle sequences (this shard) by a non-administrator on 8 operands he lacks a permission for", n))
	}

	// (b) schedules: every execution explored for C06 is a C07 case
	maxPre := c.Pick(2, 3)
	for _, kind := range []string{"MemFS", "OrefaFS"} {
		calls := conc.Calls(kind, !c.Thorough())
		prefixes := conc.Prefixes(kind)
		var pn []string
		for n := range prefixes {
			pn = append(pn, n)
		}
		sort.Strings(pn)
		i := 0
		execs := 0
		for _, name := range pn {
			for a, c1 := range calls {
				for b, c2 := range calls {
					if b < a {
						continue
					}
					i++
					if i%c.NShards != c.Shard {
						continue
					}
					p := conc.Program{FS: kind, Prefix: prefixes[name], Workers: [][]fsx.Op{c1, c2}}
					n, _ := exploreConc(c, p, maxPre, c.Pick(120, 2000))
					execs += n
				}
			}
		}
		c.Extra("schedules_"+kind, fmt.Sprintf("%d scheduled executions of 2-worker programs, pre-emption bound %d", execs, maxPre))
	}

	// (b-root) the same for calls whose operands sit directly in the root directory (MemFS only:
	// OrefaFS cannot address its root): the root is the one directory that is the ancestor
	// of everything, has no parent of its own and whose path ends with the separator
	{
		wf := func(p, d string) fsx.Op { return fsx.Op{K: "WriteFile", P: p, Data: d, Perm: 0o644} }
		prefix := []fsx.Op{{K: "Mkdir", P: "/w/a", Perm: 0o755}, wf("/w/a/x", "AX"), wf("/x0", "X0"), {K: "Mkdir", P: "/r", Perm: 0o755}, wf("/r/x", "RX")}
		lsdir := func(p string) []fsx.Op {
			return []fsx.Op{{K: "Open", P: p, Flag: os.O_RDONLY, H: 1}, {K: "FReadDir", H: 1, N: -1}, {K: "FClose", H: 1}}
		}
		rootCalls := [][]fsx.Op{
			{{K: "Rename", P: "/w/a/x", P2: "/y"}}, {{K: "Rename", P: "/x0", P2: "/w/a/x0"}}, {{K: "Rename", P: "/r/x", P2: "/x0"}}, {{K: "Rename", P: "/w/a", P2: "/a2"}},
			{{K: "Rename", P: "/r", P2: "/w/a/r"}}, {{K: "Link", P: "/w/a/x", P2: "/lx"}}, {{K: "Link", P: "/x0", P2: "/r/lx"}},
			lsdir("/"), lsdir("/w"), lsdir("/r"),
			{{K: "Mkdir", P: "/m", Perm: 0o755}}, {{K: "Remove", P: "/x0"}}, {{K: "RemoveAll", P: "/r"}}, {{K: "RemoveAll", P: "/w"}}, {{K: "Stat", P: "/"}}, {{K: "ReadDir", P: "/"}},
			{{K: "Open", P: "/n", Flag: os.O_WRONLY | os.O_CREATE | os.O_EXCL, Perm: 0o644, H: 0}, {K: "FClose", H: 0}}, {{K: "MkdirAll", P: "/r/m/n", Perm: 0o755}},
		}
		i, execs := 0, 0
		for a, c1 := range rootCalls {
			for b, c2 := range rootCalls {
				if b < a {
					continue
				}
				i++
				if i%c.NShards != c.Shard {
					continue
				}
				p := conc.Program{FS: "MemFS", Prefix: prefix, Workers: [][]fsx.Op{c1, c2}}
				n, _ := exploreConc(c, p, maxPre, c.Pick(200, 2000))
				execs += n
			}
		}
		c.Extra("schedules_root_MemFS", fmt.Sprintf("%d scheduled executions of 2-worker programs on root-level operands, pre-emption bound %d", execs, maxPre))
	}

	// (b-comp) the composite calls (ReadFile, WriteFile, ReadDir, WalkDir, Glob, MkdirAll, RemoveAll: several
	// primitive calls each, with the tree free to change in between) against the calls that change what
	// they are looking at - a file of more than one read buffer that grows, shrinks or goes away
	// while it is read, a directory emptied while it is walked
	for _, kind := range []string{"MemFS", "OrefaFS"} {
		big := strings.Repeat("0123456789", 60)
		prefix := []fsx.Op{{K: "WriteFile", P: "/w/big", Data: big, Perm: 0o644}, {K: "Mkdir", P: "/w/d", Perm: 0o755}, {K: "WriteFile", P: "/w/d/x", Data: "X", Perm: 0o644},
			{K: "Mkdir", P: "/w/d/e", Perm: 0o755}, {K: "WriteFile", P: "/w/d/e/y", Data: "Y", Perm: 0o644}}
		compCalls := [][]fsx.Op{
			{{K: "ReadFile", P: "/w/big"}}, {{K: "WriteFile", P: "/w/big", Data: big + big, Perm: 0o644}},
			{{K: "Open", P: "/w/big", Flag: os.O_WRONLY | os.O_APPEND, H: 0}, {K: "FWrite", H: 0, Data: "Z"}, {K: "FWrite", H: 0, Data: big}, {K: "FClose", H: 0}},
			{{K: "Truncate", P: "/w/big", Size: 0}}, {{K: "Truncate", P: "/w/big", Size: 2000}}, {{K: "Remove", P: "/w/big"}}, {{K: "Rename", P: "/w/big", P2: "/w/d/big"}},
			{{K: "ReadDir", P: "/w/d"}}, {{K: "WalkDir", P: "/w"}}, {{K: "Glob", P: "/w/*/*"}}, {{K: "RemoveAll", P: "/w/d"}}, {{K: "MkdirAll", P: "/w/d/e/m/n", Perm: 0o755}},
			{{K: "Rename", P: "/w/d/e", P2: "/w/e"}}, {{K: "Remove", P: "/w/d/x"}},
			// positioned reads and writes inside the file against the calls that shrink it
			{{K: "Open", P: "/w/big", Flag: os.O_RDONLY, H: 1}, {K: "FReadAt", H: 1, N: 16, Off: 32}, {K: "FSeek", H: 1, Off: 40, Whence: 0}, {K: "FRead", H: 1, N: 16}, {K: "FClose", H: 1}},
			{{K: "Open", P: "/w/big", Flag: os.O_RDWR, H: 2}, {K: "FWriteAt", H: 2, Data: "at", Off: 300}, {K: "FSeek", H: 2, Off: -5, Whence: 2}, {K: "FWrite", H: 2, Data: "tail"}, {K: "FTruncate", H: 2, Size: 10}, {K: "FClose", H: 2}},
			{{K: "Open", P: "/w/big", Flag: os.O_RDWR | os.O_TRUNC, H: 3}, {K: "FClose", H: 3}},
		}
		i, execs := 0, 0
		for a, c1 := range compCalls {
			for b, c2 := range compCalls {
				if b < a {
					continue
				}
				i++
				if i%c.NShards != c.Shard {
					continue
				}
				p := conc.Program{FS: kind, Prefix: prefix, Workers: [][]fsx.Op{c1, c2}}
				n, _ := exploreConc(c, p, maxPre, c.Pick(150, 2000))
				execs += n
			}
		}
		c.Extra("schedules_composites_"+kind, fmt.Sprintf("%d scheduled executions of pairs of %d composite, positioned and mutating calls on a 600-byte file and a small tree, pre-emption bound %d", execs, len(compCalls), maxPre))
	}

	// (b') 3 workers, random schedules
	for _, kind := range []string{"MemFS", "OrefaFS"} {
		kind := kind
		calls := conc.Calls(kind, false)
		prefixes := conc.Prefixes(kind)
		var pn []string
		for n := range prefixes {
			pn = append(pn, n)
		}
		sort.Strings(pn)
		c.Rapid("conc-random-"+kind, c.Pick(1500, 40000), func(t *rapid.T) *vt.Failure {
			p := conc.Program{FS: kind, Prefix: prefixes[rapid.SampledFrom(pn).Draw(t, "prefix")]}
			for w := rapid.IntRange(2, 4).Draw(t, "workers"); w > 0; w-- {
				var ops []fsx.Op
				for k := rapid.IntRange(1, 3).Draw(t, "calls"); k > 0; k-- {
					ops = append(ops, calls[rapid.IntRange(0, len(calls)-1).Draw(t, "call")]...)
				}
				p.Workers = append(p.Workers, ops)
			}
			choices := rapid.SliceOfN(rapid.IntRange(0, 7), 0, 80).Draw(t, "schedule")
			chooser := func(step int, en []sched.Choice, prev int, prevEnabled bool) int {
				if step < len(choices) {
					return choices[step] % len(en)
				}
				return sched.NonPreemptive(step, en, prev, prevEnabled)
			}
			res, err := conc.Execute(p, chooser)
			if err != nil {
				return nil
			}
			c.Eval(1)
			if res.Verdict.Contended && res.Verdict.Preempt > 0 {
				c.NonTrivial(vt.Hash64(p.String(), fmt.Sprint(res.Verdict.Trace)))
			}
			if dev := concDev(p, res); dev != nil {
				p.Trace = res.Verdict.Trace
				return &vt.Failure{Dev: dev, Replay: Case{Kind: "conc", FS: kind, Conc: &p}}
			}
			return nil
		})
	}

	// (c) identity manager
	idmAdversarial(c)
}

func concDev(p conc.Program, res *conc.Result) *vt.Deviation {
	v := res.Verdict
	if v.Kind == "ok" {
		for _, w := range res.Outcomes {
			for _, o := range w {
				if strings.HasPrefix(o, "PANIC") {
					d := vt.Dev("prop", "C07", "fs", p.FS, "ops", p.Kinds(), "verdict", "panic")
					d.Detail = fmt.Sprintf("%s: a call panicked under schedule %v: %s", p, v.Trace, o)
					return d
				}
			}
		}
		return nil
	}
	d := vt.Dev("prop", "C07", "fs", p.FS, "ops", p.Kinds(), "verdict", v.Kind+":"+v.Shape)
	d.Detail = fmt.Sprintf("%s: %s under schedule %v: %s", p, v.Kind, v.Trace, v.Detail)
	return d
}

func exploreConc(c *vt.Ctx, p conc.Program, maxPre, maxExec int) (int, bool) {
	var pending *conc.Pending
	var first *vt.Deviation
	var trace []int
	n, complete := sched.Explore(func() *sched.Sched {
		pending = conc.Prepare(p)
		return pending.S
	}, maxPre, maxExec, func(v sched.Verdict) bool {
		res := pending.Finish(v)
		c.Eval(1)
		c.Label("sched-verdict:" + v.Kind)
		if v.Contended && v.Preempt > 0 {
			c.NonTrivial(vt.Hash64(p.String(), fmt.Sprint(v.Trace)))
		}
		if dev := concDev(p, res); dev != nil && first == nil {
			first, trace = dev, v.Trace
			return false
		}
		return true
	})
	if first != nil {
		p.Trace = trace
		c.Report(first, Case{Kind: "conc", FS: p.FS, Conc: &p})
	}
	return n, complete
}

func replay(c *vt.Ctx, cs Case) *vt.Deviation {
	switch cs.Kind {
	case "conc":
		res, err := conc.Execute(*cs.Conc, sched.Replay(cs.Conc.Trace))
		if err != nil {
			c.Inconclusive("replay: " + err.Error())
			return nil
		}
		return concDev(*cs.Conc, res)
	case "idm":
		return idmRun(cs.Idm)
	case "user":
		return userRun(cs.Ops)
	case "misc":
		v, err := build(cs.FS, advPrefix(strings.Contains(cs.FS, "MemFS") && !strings.HasPrefix(cs.FS, "BasePathFS")))
		if err != nil {
			c.Inconclusive("replay build: " + err.Error())
			return nil
		}
		for _, mc := range miscCalls(v) {
			if len(cs.Idm) > 0 && mc.name == cs.Idm[0] {
				if res := runMisc(mc); res != "" {
					verdict := "panic"
					if !strings.HasPrefix(res, "PANIC") {
						verdict = strings.SplitN(res, " ", 2)[0]
					}
					d := vt.Dev("prop", "C07", "fs", cs.FS, "op", strings.SplitN(mc.name, "(", 2)[0], "verdict", verdict, "clause", "misc")
					d.Detail = fmt.Sprintf("%s %s: %s", cs.FS, mc.name, res)
					return d
				}
			}
		}
		return nil
	}
	v, err := build(cs.FS, cs.Prefix)
	if err != nil {
		c.Inconclusive("replay build: " + err.Error())
		return nil
	}
	outs, verdict, nh := runSingleR(v, cs.Ops)
	hstate := ""
	for _, hs := range handleStates {
		if len(cs.Ops) > len(hs.ops) && fmt.Sprint(cs.Ops[:len(hs.ops)]) == fmt.Sprint(hs.ops) {
			hstate = hs.name
		}
	}
	return judge(cs.FS, hstate, cs.Ops, outs, verdict, nh)
}

// userFS: a MemFS with users, a tree restricted in every way, and the current user set to a
// non-administrator who owns nothing in it but /w/mine.
func userFS() avfs.VFS {
	idm := memidm.NewWithOptions(&memidm.Options{OSType: avfs.OsLinux})
	v := memfs.NewWithOptions(&memfs.Options{OSType: avfs.OsLinux, Idm: idm})
	_, _ = idm.AddGroup("g1")
	u1, _ := idm.AddUser("u1", "g1")
	_ = v.SetUMask(0)
	_ = v.Chdir("/")
	_ = v.MkdirAll("/w", 0o777)
	for _, d := range []struct {
		p string
		m fs.FileMode
	}{{"/w/ns", 0o744}, {"/w/nr", 0o311}, {"/w/np", 0}, {"/w/st", 0o777 | fs.ModeSticky}, {"/w/ok", 0o777}} {
		_ = v.Mkdir(d.p, 0o777)
		_ = v.WriteFile(d.p+"/f", []byte("data"), 0o644)
		_ = v.Mkdir(d.p+"/d", 0o755)
		_ = v.Chmod(d.p, d.m)
	}
	_ = v.WriteFile("/w/ro", []byte("read only"), 0o444)
	_ = v.WriteFile("/w/hid", []byte("hidden"), 0)
	_ = v.SetUser(u1)
	_ = v.WriteFile("/w/mine", []byte("mine"), 0o600)
	_ = v.Mkdir("/w/mydir", 0o700)
	return v
}

func userCases() [][]fsx.Op {
	var r [][]fsx.Op
	targets := []string{"/w/ns", "/w/ns/f", "/w/ns/d", "/w/nr", "/w/nr/f", "/w/np", "/w/np/f", "/w/st/f", "/w/st/d", "/w/ro", "/w/hid", "/w/ok/f"}
	for _, p := range targets {
		for _, k := range []string{"Mkdir", "MkdirAll", "Create", "ReadFile", "Remove", "RemoveAll", "Readlink", "Chdir", "Stat", "Lstat", "ReadDir", "EvalSymlinks", "WalkDir", "Glob"} {
			o := fsx.Op{K: k, P: p, Perm: 0o755}
			if k == "Glob" {
				o.P = p + "/*"
			}
			if k == "Mkdir" || k == "MkdirAll" || k == "Create" {
				o.P = p + "/new"
			}
			r = append(r, []fsx.Op{o, {K: "Getwd"}})
		}
		r = append(r, []fsx.Op{{K: "WriteFile", P: p, Data: "d", Perm: 0o644}}, []fsx.Op{{K: "Chmod", P: p, Perm: 0o777}}, []fsx.Op{{K: "Chown", P: p, Uid: 0, Gid: 0}}, []fsx.Op{{K: "Lchown", P: p, Uid: -1, Gid: -1}},
			[]fsx.Op{{K: "Chtimes", P: p, MT: 1000000000}}, []fsx.Op{{K: "Truncate", P: p, Size: 0}}, []fsx.Op{{K: "CreateTemp", P: p, P2: "t*"}}, []fsx.Op{{K: "MkdirTemp", P: p, P2: "t*"}},
			[]fsx.Op{{K: "Rename", P: p, P2: "/w/mydir/z"}}, []fsx.Op{{K: "Rename", P: "/w/mine", P2: p}}, []fsx.Op{{K: "Rename", P: "/w/mydir", P2: p}}, []fsx.Op{{K: "Link", P: p, P2: "/w/mydir/l"}}, []fsx.Op{{K: "Link", P: "/w/mine", P2: p + "/l"}},
			[]fsx.Op{{K: "Symlink", P: p, P2: "/w/mydir/s"}, {K: "Stat", P: "/w/mydir/s"}, {K: "Stat", P: "/w/mydir/s/f"}})
		for _, fl := range []int{os.O_RDONLY, os.O_RDWR, os.O_WRONLY | os.O_TRUNC, os.O_RDWR | os.O_CREATE, os.O_WRONLY | os.O_CREATE | os.O_EXCL, os.O_WRONLY | os.O_APPEND} {
			seq := []fsx.Op{{K: "Open", P: p, Flag: fl, Perm: 0o644, H: 0}}
			for _, h := range []fsx.Op{{K: "FChdir"}, {K: "Getwd"}, {K: "FStat"}, {K: "FReadDir", N: -1}, {K: "FReaddirnames", N: 1}, {K: "FRead", N: 4}, {K: "FWrite", Data: "w"}, {K: "FChmod", Perm: 0o777}, {K: "FChown", Uid: 0, Gid: 0},
				{K: "FTruncate", Size: 1}, {K: "FSync"}, {K: "FChdir"}, {K: "FClose"}, {K: "FChdir"}} {
				seq = append(seq, h)
			}
			r = append(r, seq)
		}
	}
	return r
}

func userRun(ops []fsx.Op) *vt.Deviation {
	outs, verdict, nh := runSingleR(userFS(), ops)
	return judge("MemFS+user", "", ops, outs, verdict, nh)
}
