// C11 - a Sub view shows exactly its subtree and keeps its own user, umask and cwd.
package c11

import (
	"fmt"
	"io/fs"
	"path"
	"strings"
	"testing"

	"github.com/avfs/avfs"
	"github.com/avfs/avfs/idm/memidm"
	"github.com/avfs/avfs/vfs/memfs"
	"pgregory.net/rapid"

	"verif/harness/internal/fsx"
	"verif/harness/internal/gen"
	"verif/harness/internal/vt"
)

// Step is one step of a C11 history.
type Step struct {
	On  int    `json:"on"`            // 0 = parent, 1.. = view index
	Set string `json:"set,omitempty"` // "", "umask", "user", (Chdir is an ordinary op)
	Val int    `json:"val,omitempty"` // umask value / user index (0 admin, 1 u1, 2 u2)
	Op  fsx.Op `json:"op,omitempty"`
	Adv bool   `json:"adv,omitempty"` // adversarial path: only confinement is asserted
	// Detach: the administrator removes, through the parent, the directory a view is rooted at
	// or an ancestor of it (Op is that RemoveAll). Last step of a history: the view has no
	// directory left, the one thing asserted is that the removal is visible through it.
	Detach bool `json:"detach,omitempty"`
}

// Case is a replayable C11 case.
type Case struct {
	Views  []string `json:"views"` // directory of each view; "@1/x" = nested below view 1
	Prefix []fsx.Op `json:"prefix"`
	Steps  []Step   `json:"steps"`
}

type side struct {
	v      avfs.VFS
	r      *fsx.Runner
	dir    string // where the view is rooted, in parent paths ("" for the parent itself)
	cwd    string // tracked virtual cwd
	umask  int
	user   int
	opened map[int]string // slot -> path (in this side's name space) of the handle opened there
}

type inst struct {
	p, q   *memfs.MemFS  // parent of instance 1, twin parent of instance 2
	sides  []*side       // sides[0] = parent, then views (instance 1)
	qr     []*fsx.Runner // one mirror runner per side on the twin (separate handle tables)
	users1 []avfs.UserReader
	users2 []avfs.UserReader
}

func newMem() (*memfs.MemFS, []avfs.UserReader) {
	idm := memidm.NewWithOptions(&memidm.Options{OSType: avfs.OsLinux})
	v := memfs.NewWithOptions(&memfs.Options{OSType: avfs.OsLinux, Idm: idm})
	_, _ = idm.AddGroup("g1")
	u1, _ := idm.AddUser("u1", "g1")
	u2, _ := idm.AddUser("u2", "g1")
	_ = v.SetUMask(0o022)
	_ = v.Chdir("/")
	_ = v.Mkdir("/w", 0o777)
	_ = v.Chmod("/w", 0o777)
	return v, []avfs.UserReader{idm.AdminUser(), u1, u2}
}

func newInst(cs Case) (*inst, error) {
	in := &inst{}
	in.p, in.users1 = newMem()
	in.q, in.users2 = newMem()
	for _, v := range []*memfs.MemFS{in.p, in.q} {
		r := fsx.NewRunner(v)
		for _, o := range cs.Prefix {
			if out := r.Do(o); out.Err != "ok" {
				return nil, fmt.Errorf("prefix %s: %s", o, out)
			}
		}
		r.CloseAll()
	}
	in.sides = []*side{{v: in.p, r: fsx.NewRunner(in.p), dir: "", cwd: "/", umask: 0o022}}
	for _, d := range cs.Views {
		var base avfs.VFS = in.p
		abs := d
		if strings.HasPrefix(d, "@") { // nested: "@<i><path>"
			i := int(d[1] - '0')
			base = in.sides[i].v
			abs = path.Join(in.sides[i].dir, d[2:])
			d = d[2:]
		}
		sub, err := base.Sub(d)
		if err != nil {
			return nil, err
		}
		if abs == "/" {
			abs = ""
		}
		// a fresh view starts with the state it was copied with
		bs := in.sides[0]
		if base != avfs.VFS(in.p) {
			for _, s := range in.sides {
				if s.v == base {
					bs = s
				}
			}
		}
		in.sides = append(in.sides, &side{v: sub, r: fsx.NewRunner(sub), dir: abs, cwd: "/", umask: bs.umask, user: bs.user})
		_ = sub.Chdir("/")
	}
	for range in.sides {
		in.qr = append(in.qr, fsx.NewRunner(in.q))
	}
	return in, nil
}

// snap walks the tree as the administrator (harness step: the user of the
// file system is restored afterwards).
func snap(v avfs.VFS, root string) fsx.Snap {
	u := v.User()
	_ = v.SetUser(v.Idm().AdminUser())
	s := fsx.Snapshot(v, fsx.SnapOpts{Roots: []string{root}})
	_ = v.SetUser(u)
	return s
}

// restrict returns the records of s below dir with the prefix removed.
func restrict(s fsx.Snap, dir string) fsx.Snap {
	if dir == "" {
		return s
	}
	var out fsx.Snap
	first := map[int]int{}
	for _, r := range s {
		if r.Path != dir && !strings.HasPrefix(r.Path, dir+"/") {
			continue
		}
		r.Path = strings.TrimPrefix(r.Path, dir)
		if r.Path == "" {
			r.Path = "/"
		}
		out = append(out, r)
	}
	for i := range out {
		if out[i].Type != "f" {
			continue
		}
		if j, ok := first[out[i].Ident]; ok {
			out[i].Ident = j
		} else {
			first[out[i].Ident] = i
			out[i].Ident = i
		}
	}
	return out
}

func renumber(s fsx.Snap) fsx.Snap { return restrictAll(s) }

func restrictAll(s fsx.Snap) fsx.Snap {
	out := make(fsx.Snap, len(s))
	copy(out, s)
	first := map[int]int{}
	for i := range out {
		if out[i].Type != "f" {
			continue
		}
		if j, ok := first[out[i].Ident]; ok {
			out[i].Ident = j
		} else {
			first[out[i].Ident] = i
			out[i].Ident = i
		}
	}
	return out
}

// mirrorOp rewrites the op issued on a side into the op for the twin parent:
// every path operand becomes absolute (against the side's tracked cwd),
// cleaned in the side's namespace, and prefixed with the side's directory.
func mirrorOp(s *side, o fsx.Op) fsx.Op {
	conv := func(p string) string {
		if p == "" && o.K != "Chdir" {
			p = "."
		}
		abs := p
		if !strings.HasPrefix(p, "/") {
			abs = path.Join(s.cwd, p)
		}
		abs = path.Clean(abs)
		if s.dir == "" {
			return abs
		}
		if abs == "/" {
			return s.dir
		}
		return s.dir + abs
	}
	m := o
	if strings.HasPrefix(o.K, "F") || o.K == "Getwd" {
		return m
	}
	switch o.K {
	case "Symlink":
		m.P2 = conv(o.P2)
	case "Rename", "Link":
		m.P, m.P2 = conv(o.P), conv(o.P2)
	case "CreateTemp", "MkdirTemp":
		if o.P != "" {
			m.P = conv(o.P)
		}
	default:
		m.P = conv(o.P)
	}
	return m
}

func (in *inst) state(s *side) string {
	wd, _ := s.v.Getwd()
	return fmt.Sprintf("user=%s umask=%04o cwd=%s", s.v.User().Name(), s.v.UMask(), wd)
}

func (in *inst) step(c *vt.Ctx, st Step) *vt.Deviation {
	if st.On >= len(in.sides) {
		// (only the deterministic cases address a view before knowing that it exists)
		d := vt.Dev("prop", "C11", "on", "view", "op", "sub", "clause", "outcome")
		d.Detail = fmt.Sprintf("step %s%s addresses view %d, which does not exist: the Sub call that the parent's twin accepts was refused", st.Set, st.Op, st.On)
		return d
	}
	s := in.sides[st.On]
	c.Eval(1)
	mk := func(clause, detail string) *vt.Deviation {
		on := "parent"
		if st.On > 0 {
			on = "view"
		}
		d := vt.Dev("prop", "C11", "on", on, "op", st.Op.K+st.Set, "clause", clause)
		d.Detail = fmt.Sprintf("on %s(dir %q) %s%s: %s", on, s.dir, st.Set, st.Op, detail)
		return d
	}
	// states of everybody else before
	var others []string
	for i, o := range in.sides {
		if i != st.On {
			others = append(others, in.state(o))
		} else {
			others = append(others, "")
		}
	}
	checkOthers := func() *vt.Deviation {
		for i, o := range in.sides {
			if i < len(others) && i != st.On && in.state(o) != others[i] {
				return mk("state-leak", fmt.Sprintf("user/umask/cwd of side %d (dir %q) changed from %q to %q", i, o.dir, others[i], in.state(o)))
			}
		}
		return nil
	}
	switch st.Set {
	case "sub":
		// a view created in the middle of a history, from the parent or from another view:
		// creating it changes nobody's user, umask or working directory - not the receiver's either
		if len(in.sides) >= 5 {
			return nil
		}
		// (a relative directory is taken from the receiver's working directory)
		inRecv := st.Op.P
		if !strings.HasPrefix(inRecv, "/") {
			inRecv = path.Join("/", s.cwd, inRecv)
		}
		if !in.viewable(path.Join("/", s.dir, inRecv)) {
			// the permission bits of a view's directory and of its ancestors are not traversed
			// through the view (as for a chroot): the comparison needs them to let everybody pass
			c.Label("sub-skipped:permissions-on-the-way")
			return nil
		}
		before := in.state(s)
		sub, err := s.v.Sub(st.Op.P)
		if got := in.state(s); got != before {
			return mk("state-leak", fmt.Sprintf("Sub(%q) changed the receiver's own user/umask/cwd from %q to %q", st.Op.P, before, got))
		}
		if dev := checkOthers(); dev != nil {
			return dev
		}
		if err != nil {
			return nil
		}
		abs := path.Join("/", s.dir, inRecv)
		if abs == "/" {
			abs = ""
		}
		in.sides = append(in.sides, &side{v: sub, r: fsx.NewRunner(sub), dir: abs, cwd: "/", umask: s.umask, user: s.user})
		in.qr = append(in.qr, fsx.NewRunner(in.q))
		// the first call sets the view's working directory through the view: "/" or, to meet
		// whatever the view inherited, the receiver's own current directory
		first := "/"
		if st.Val == 1 {
			first = s.cwd
		}
		if dev := in.step(c, Step{On: len(in.sides) - 1, Op: fsx.Op{K: "Chdir", P: first}}); dev != nil || first == "/" {
			return dev
		}
		// (that directory need not exist in the view: "/" then is the first successful Chdir)
		return in.step(c, Step{On: len(in.sides) - 1, Op: fsx.Op{K: "Chdir", P: "/"}})
	case "umask":
		_ = s.v.SetUMask(fs.FileMode(st.Val))
		s.umask = st.Val
		if s.v.UMask() != fs.FileMode(st.Val) {
			return mk("setter", "UMask() does not return what SetUMask set")
		}
		return checkOthers()
	case "user":
		_ = s.v.SetUser(in.users1[st.Val])
		s.user = st.Val
		if s.v.User().Name() != in.users1[st.Val].Name() {
			return mk("setter", "User() does not return what SetUser set")
		}
		return checkOthers()
	}
	if st.Detach {
		return in.detach(c, st, mk)
	}
	if st.Set == "empty-root" {
		// RemoveAll of the view's own root, by the administrator: the root cannot go away (the call
		// reports that), but RemoveAll "removes everything it can": afterwards the view is empty and
		// so is the directory in the parent. Last step of a history.
		_ = s.v.SetUser(in.users1[0])
		out := s.r.Do(fsx.Op{K: "RemoveAll", P: st.Op.P})
		if out.Err == "PANIC" {
			return mk("panic", out.Note)
		}
		if es, err := s.v.ReadDir("/"); err != nil || len(es) != 0 {
			return mk("root-not-emptied", fmt.Sprintf("RemoveAll(%q) through the view -> %s; the view's root still lists %d entries (%v)", st.Op.P, out, len(es), err))
		}
		d := s.dir
		if d == "" {
			d = "/"
		}
		_ = in.p.SetUser(in.users1[0])
		if es, err := in.p.ReadDir(d); d != "/" && (err != nil || len(es) != 0) {
			return mk("root-not-emptied", fmt.Sprintf("RemoveAll(%q) through the view -> %s; %s in the parent still lists %d entries (%v)", st.Op.P, out, d, len(es), err))
		}
		return nil
	}
	o := st.Op
	out := s.r.Do(o)
	if out.Err == "PANIC" && out.Val != "nil-handle" {
		return mk("panic", out.Note)
	}
	if dev := checkOthers(); dev != nil {
		return dev
	}
	if st.Adv {
		// adversarial path (through '..' or symbolic links made by the parent):
		// only confinement is asserted - nothing outside the view's directory is
		// revealed or changed; the twin is brought to the same state by copying
		if strings.Contains(out.Val, "OUTSIDE") {
			return mk("escape-read", "the call returned the content of a file outside the view's directory")
		}
		return nil
	}
	// mirror on the twin parent with the side's user and umask
	_ = in.q.SetUMask(fs.FileMode(s.umask))
	_ = in.q.SetUser(in.users2[s.user])
	mo := mirrorOp(s, o)
	ref := in.qr[st.On].Do(mo)
	_ = in.q.SetUser(in.users2[0])
	if o.K == "Getwd" {
		if out.Val != s.cwd {
			return mk("cwd", fmt.Sprintf("Getwd returns %q, the view's working directory is %q", out.Val, s.cwd))
		}
	} else {
		if out.Err != ref.Err {
			return mk("outcome", fmt.Sprintf("%s, the parent on %s gives %s", out, mo, ref))
		}
		if out.Val != ref.Val && o.K != "Glob" && o.K != "WalkDir" && o.K != "EvalSymlinks" && o.K != "Stat" && o.K != "Lstat" {
			return mk("value", fmt.Sprintf("%s, the parent on %s gives %s", out, mo, ref))
		}
	}
	if o.K == "Open" && out.Err == "ok" {
		if s.opened == nil {
			s.opened = map[int]string{}
		}
		s.opened[o.H] = path.Join("/", s.cwd, o.P)
		if strings.HasPrefix(o.P, "/") {
			s.opened[o.H] = path.Clean(o.P)
		}
	}
	if o.K == "FChdir" && out.Err == "ok" && s.opened[o.H] != "" {
		s.cwd = s.opened[o.H] // the working directory set through an open directory
	}
	if o.K == "Chdir" && out.Err == "ok" {
		if strings.HasPrefix(o.P, "/") {
			s.cwd = path.Clean(o.P)
		} else {
			s.cwd = path.Join(s.cwd, o.P)
		}
		if s.dir == "" {
			// the twin shares one cwd between all mirrors: mirrored paths are absolute, so it does not matter
		}
	}
	// mutual visibility and exact subtree
	sp := renumber(snap(in.p, "/"))
	sq := renumber(snap(in.q, "/"))
	if p, f, l, r, same := fsx.Diff(sp, sq); !same {
		return mk("effect", fmt.Sprintf("after the call the trees differ at %s (%s): instance with views %q, twin parent %q", p, f, l, r))
	}
	for i, vs := range in.sides[1:] {
		got := renumber(snap(vs.v, "/"))
		want := restrict(sq, vs.dir)
		if p, f, l, r, same := fsx.Diff(got, want); !same {
			return mk("subtree", fmt.Sprintf("view %d (dir %q) differs from the parent's subtree at %s (%s): view %q, parent %q", i+1, vs.dir, p, f, l, r))
		}
	}
	return nil
}

// detach: "changes to the tree made through the parent are immediately visible to the view" for
// the change that takes the view's own directory away. What the view shows for "/" afterwards is
// not specified (there is no directory left to show), but everything that was below it has been
// removed: no former path may still resolve through the view, and its listing must be empty.
func (in *inst) detach(c *vt.Ctx, st Step, mk func(clause, detail string) *vt.Deviation) *vt.Deviation {
	before := map[int]fsx.Snap{}
	for i, vs := range in.sides[1:] {
		before[i+1] = snap(vs.v, "/")
	}
	_ = in.p.SetUser(in.users1[0])
	out := in.sides[0].r.Do(st.Op)
	_ = in.p.SetUser(in.users1[in.sides[0].user])
	if out.Err != "ok" {
		return mk("outcome", fmt.Sprintf("RemoveAll by the administrator -> %s", out))
	}
	if r := snap(in.p, "/").Lookup(st.Op.P); r != nil {
		return mk("effect", "the removed directory is still there in the parent")
	}
	for i, vs := range in.sides[1:] {
		if vs.dir != st.Op.P && !strings.HasPrefix(vs.dir, st.Op.P+"/") {
			continue
		}
		c.Label("detached-view-checked")
		for _, r := range before[i+1] {
			if r.Path == "/" || r.Type == "" {
				continue
			}
			if _, err := vs.v.Lstat(r.Path); err == nil {
				return mk("detached-still-visible", fmt.Sprintf("the parent removed %s; through view %d (dir %q) the former %s still resolves", st.Op.P, i+1, vs.dir, r.Path))
			}
		}
		if es, err := vs.v.ReadDir("/"); err == nil && len(es) > 0 {
			return mk("detached-still-visible", fmt.Sprintf("the parent removed %s; view %d (dir %q) still lists %d entries in its root", st.Op.P, i+1, vs.dir, len(es)))
		}
	}
	return nil
}

// viewable: abs and every ancestor of it are directories everybody may read and search.
func (in *inst) viewable(abs string) bool {
	u := in.q.User()
	_ = in.q.SetUser(in.users2[0])
	defer func() { _ = in.q.SetUser(u) }()
	for p := abs; ; p = path.Dir(p) {
		fi, err := in.q.Lstat(p)
		if err != nil || !fi.IsDir() || fi.Mode().Perm()&0o555 != 0o555 {
			return err != nil && p == abs // a missing directory: Sub fails on both sides, nothing is created
		}
		if p == "/" {
			return true
		}
	}
}

func (in *inst) close() {
	for _, s := range in.sides {
		s.r.CloseAll()
	}
	for _, r := range in.qr {
		r.CloseAll()
	}
}

func run(c *vt.Ctx, cs Case) *vt.Deviation {
	in, err := newInst(cs)
	if err != nil {
		c.Inconclusive("instance: " + err.Error())
		return nil
	}
	defer in.close()
	for _, st := range cs.Steps {
		if dev := in.step(c, st); dev != nil {
			return dev
		}
	}
	return nil
}

var prefix = []fsx.Op{
	{K: "Mkdir", P: "/w/d", Perm: 0o777}, {K: "Mkdir", P: "/w/d/a", Perm: 0o755}, {K: "WriteFile", P: "/w/d/a/b", Data: "DAB", Perm: 0o644},
	{K: "Mkdir", P: "/w/d/e", Perm: 0o777}, {K: "WriteFile", P: "/w/d/e/f", Data: "DEF", Perm: 0o644},
	{K: "WriteFile", P: "/w/out", Data: "OUTSIDE", Perm: 0o644}, {K: "Mkdir", P: "/w/other", Perm: 0o755}, {K: "WriteFile", P: "/w/other/x", Data: "OUTSIDE-X", Perm: 0o644},
	{K: "Symlink", P: "/w/out", P2: "/w/d/abslink"}, {K: "Symlink", P: "../out", P2: "/w/d/rellink"}, {K: "Symlink", P: "/w/other", P2: "/w/d/dirlink"},
	{K: "Chmod", P: "/w/d", Perm: 0o777},
}

var viewSets = [][]string{{"/w/d"}, {"/w/d", "/w/d/e"}, {"/w/d", "@1/e"}, {"/"}, {"/w/d", "/w/d"}, {"/w", "@1/d"}}

func TestCheck(t *testing.T) {
	c := vt.New(t, "C11")
	defer c.Finish()
	for _, f := range c.ReplayFiles() {
		var cs Case
		if err := vt.LoadReplay(f, &cs); err != nil {
			c.Inconclusive("replay " + f + ": " + err.Error())
			continue
		}
		if dev := run(c, cs); dev != nil {
			if k := c.KnownFor(dev); k != nil {
				c.WitnessLive(k.ID)
			}
			c.Report(dev, cs)
		}
	}
	if c.Replay != "" {
		return
	}
	// inside a view the names are a, b, e, f ...: a universe over these
	inView := gen.Config{Symlinks: false, Root: true, Base: "", NoTemp: true, NoChown: false}
	adv := []string{"/..", "/../out", "../out", "../../w/out", "/abslink", "/rellink", "/dirlink/x", "/dirlink", "/a/../../out", "abslink", "/../other/x"}
	// the permission bits of a view's own directory: a view rooted at a directory its user may not
	// search or read answers as the parent does on the prefixed paths - for the directory itself
	// (no permission of its own needed) and for what is below it (search permission needed)
	{
		_, us := newMem()
		n := 0
		ops := []fsx.Op{{K: "Stat", P: "/"}, {K: "Lstat", P: "/"}, {K: "ReadDir", P: "/"}, {K: "Open", P: "/", H: 0}, {K: "Chmod", P: "/", Perm: 0o755}, {K: "Chtimes", P: "/", MT: 1000000000},
			{K: "Chdir", P: "/"}, {K: "Stat", P: "/a"}, {K: "ReadFile", P: "/a/b"}, {K: "Mkdir", P: "/n", Perm: 0o755}, {K: "Stat", P: "/e/f"}, {K: "Remove", P: "/rellink"}, {K: "Rename", P: "/e", P2: "/e2"}}
		for _, owner := range []int{0, 1} {
			for _, mode := range []uint32{0o777, 0o700, 0o600, 0o070, 0o060, 0o007, 0o707, 0o770, 0o000, 0o1777} {
				for _, user := range []int{1, 2, 0} {
					for _, o := range ops {
						n++
						if n%c.NShards != c.Shard {
							continue
						}
						cs := Case{Views: []string{"/w/d"}, Prefix: prefix}
						if owner != 0 {
							cs.Steps = append(cs.Steps, Step{On: 0, Op: fsx.Op{K: "Chown", P: "/w/d", Uid: us[owner].Uid(), Gid: us[owner].Gid()}})
						}
						cs.Steps = append(cs.Steps, Step{On: 0, Op: fsx.Op{K: "Chmod", P: "/w/d", Perm: mode}}, Step{On: 1, Set: "user", Val: user}, Step{On: 1, Op: o}, Step{On: 1, Op: fsx.Op{K: "Getwd"}})
						if dev := run(c, cs); dev != nil {
							c.Report(dev, cs)
						}
						if user != 0 && mode&0o111 != 0o111 {
							c.NonTrivial(vt.Hash64("viewroot", fmt.Sprint(owner, mode, user), o.String()))
						}
					}
				}
			}
		}
		c.Extra("view_root_permissions", fmt.Sprintf("%d cases over 2 owners x 10 modes of the view's directory x 3 users x %d calls", n, len(ops)))
	}
	// a view of a relative directory is rooted below the receiver's working directory
	if c.Shard == 0 {
		for _, tc := range []struct {
			on       int
			cd, sub  string
			existing string
		}{{0, "/w/d", "e", "/f"}, {0, "/w", "d/a", "/b"}, {1, "/e", ".", "/f"}, {1, "/a", "..", "/a/b"}, {1, "/", "e", "/f"}, {0, "/w/d/e", "..", "/a/b"}} {
			cs := Case{Views: []string{"/w/d"}, Prefix: prefix, Steps: []Step{{On: tc.on, Op: fsx.Op{K: "Chdir", P: tc.cd}}, {On: tc.on, Set: "sub", Op: fsx.Op{P: tc.sub}},
				{On: 2, Op: fsx.Op{K: "ReadFile", P: tc.existing}}, {On: 2, Op: fsx.Op{K: "WriteFile", P: "/new", Data: "n", Perm: 0o644}}, {On: 2, Op: fsx.Op{K: "ReadDir", P: "/"}}}}
			c.NonTrivial(vt.Hash64("relative-sub", fmt.Sprint(tc)))
			if dev := run(c, cs); dev != nil {
				c.Report(dev, cs)
			}
		}
	}
	c.Rapid("hist", c.Pick(2500, 60000), func(t *rapid.T) *vt.Failure {
		cs := Case{Views: rapid.SampledFrom(viewSets).Draw(t, "views"), Prefix: prefix}
		in, err := newInst(cs)
		if err != nil {
			c.Inconclusive("instance: " + err.Error())
			return nil
		}
		defer in.close()
		setters, mutView, mutParent := 0, 0, 0
		for n := rapid.IntRange(1, 40).Draw(t, "n"); n > 0; n-- {
			on := rapid.IntRange(0, len(in.sides)-1).Draw(t, "on")
			var steps []Step
			switch rapid.IntRange(0, 10).Draw(t, "what") {
			case 10:
				on = rapid.IntRange(0, len(in.sides)-1).Draw(t, "sub-on")
				dirs := []string{"/", "/a", "/e", "/missing"}
				if in.sides[on].dir == "" {
					dirs = []string{"/w/d", "/w/d/e", "/w/d/a", "/w", "/w/missing"}
				}
				if in.sides[on].dir == "/w" {
					dirs = []string{"/d", "/d/e", "/"}
				}
				dirs = append(dirs, "a", "e", "d", ".", "..", "d/e")
				sd := rapid.SampledFrom(dirs).Draw(t, "sub-dir")
				// the same directory written uncleanly (trailing separator, final ".", a doubled
				// separator, "./" in front of a relative one) is the same directory
				switch rapid.IntRange(0, 7).Draw(t, "sub-spelling") {
				case 0:
					if sd != "/" {
						sd += "/"
					}
				case 1:
					sd = strings.TrimSuffix(sd, "/") + "/."
				case 2:
					if i := strings.LastIndex(sd, "/"); i >= 0 {
						sd = sd[:i] + "/" + sd[i:]
					} else {
						sd = "./" + sd
					}
				}
				steps = []Step{{On: on, Set: "sub", Op: fsx.Op{P: sd}, Val: rapid.IntRange(0, 1).Draw(t, "sub-first")}}
			case 0:
				steps = []Step{{On: on, Set: "umask", Val: rapid.SampledFrom([]int{0, 0o022, 0o077, 0o027}).Draw(t, "umask")}}
			case 1:
				steps = []Step{{On: on, Set: "user", Val: rapid.IntRange(0, 2).Draw(t, "user")}}
			case 2:
				p := rapid.SampledFrom(adv).Draw(t, "adv")
				k := rapid.SampledFrom([]string{"ReadFile", "Stat", "ReadDir", "Lstat", "Open"}).Draw(t, "advk")
				if on == 0 || !strings.HasPrefix(in.sides[on].dir, "/w/d") {
					continue // the sentinels are outside /w/d only
				}
				steps = []Step{{On: on, Adv: true, Op: fsx.Op{K: k, P: p}}}
				if k == "Open" {
					steps = append(steps, Step{On: on, Adv: true, Op: fsx.Op{K: "FReadAll", H: 0}}, Step{On: on, Adv: true, Op: fsx.Op{K: "FClose", H: 0}})
				}
			default:
				cfg := inView
				if on == 0 || in.sides[on].dir == "" {
					cfg.Base = "/w/d"
				}
				if in.sides[on].dir == "/w" {
					cfg.Base = "/d"
				}
				drawn := cfg.Draw(t)
				if outOfDomain(in, on, drawn[0]) {
					c.Label("out-of-domain")
					continue
				}
				for _, o := range drawn {
					steps = append(steps, Step{On: on, Op: o})
				}
			}
			for _, st := range steps {
				cs.Steps = append(cs.Steps, st)
				if dev := in.step(c, st); dev != nil {
					return &vt.Failure{Dev: dev, Replay: cs}
				}
				if st.Set != "" {
					setters++
				} else if !st.Adv {
					if st.On == 0 {
						mutParent++
					} else {
						mutView++
					}
				}
				c.Label("step:" + st.Set + st.Op.K)
			}
		}
		if last := rapid.IntRange(0, 7).Draw(t, "last"); last == 1 && len(in.sides) > 1 {
			vi := rapid.IntRange(1, len(in.sides)-1).Draw(t, "empty-view")
			if in.sides[vi].dir != "" && in.sides[vi].dir != "/w" {
				st := Step{On: vi, Set: "empty-root", Op: fsx.Op{P: rapid.SampledFrom([]string{"/", "/a/..", "/."}).Draw(t, "root-spelling")}}
				cs.Steps = append(cs.Steps, st)
				if dev := in.step(c, st); dev != nil {
					return &vt.Failure{Dev: dev, Replay: cs}
				}
				c.Label("step:empty-root")
				return nil
			}
		}
		if rapid.IntRange(0, 3).Draw(t, "detach") == 0 {
			var cands []string
			for _, vs := range in.sides[1:] {
				for d := vs.dir; strings.HasPrefix(d, "/w/"); d = path.Dir(d) {
					cands = append(cands, d)
				}
			}
			if len(cands) > 0 {
				st := Step{On: 0, Detach: true, Op: fsx.Op{K: "RemoveAll", P: rapid.SampledFrom(cands).Draw(t, "detach-dir")}}
				cs.Steps = append(cs.Steps, st)
				if dev := in.step(c, st); dev != nil {
					return &vt.Failure{Dev: dev, Replay: cs}
				}
				c.Label("step:detach")
			}
		}
		if len(cs.Views) >= 2 && setters >= 1 && mutView >= 1 && mutParent >= 1 {
			c.NonTrivial(vt.Hash64(fmt.Sprint(cs.Views), fmt.Sprint(cs.Steps)))
			c.Sample(fmt.Sprint(cs.Views), map[string]any{"views": cs.Views, "steps": len(cs.Steps)})
		}
		return nil
	})
}

// outOfDomain: calls the property does not speak about - the empty path, a
// call that removes or renames a view's own root through the view, and a call
// on the parent that removes or renames the directory a view is rooted at (or
// an ancestor of it): the view then has no directory to show.
func outOfDomain(in *inst, on int, o fsx.Op) bool {
	if (o.P == "" && o.K != "Getwd" && o.K != "CreateTemp" && o.K != "MkdirTemp") || ((o.K == "Rename" || o.K == "Link") && o.P2 == "") {
		return true
	}
	s := in.sides[on]
	if o.K == "RemoveAll" && s.user != 0 {
		// a RemoveAll that fails half way removes "what it can" in map order:
		// two instances legitimately end in different trees
		return true
	}
	if o.K != "Remove" && o.K != "RemoveAll" && o.K != "Rename" && o.K != "Chmod" && o.K != "Chown" && o.K != "Lchown" {
		// (permissions of a view's directory and of its ancestors are not
		// traversed through the view, as for a chroot: they are left alone)
		return false
	}
	abs := func(p string) string {
		if !strings.HasPrefix(p, "/") {
			p = path.Join(s.cwd, p)
		}
		p = path.Clean(p)
		if s.dir != "" {
			if p == "/" {
				return s.dir
			}
			return s.dir + p
		}
		return p
	}
	for _, p := range []string{o.P, o.P2} {
		if p == "" || (o.K != "Rename" && p == o.P2) {
			continue
		}
		a := abs(p)
		for _, v := range in.sides[1:] {
			d := v.dir
			if d == "" {
				d = "/"
			}
			if a == d && (o.K == "Chmod" || o.K == "Chown" || o.K == "Lchown") && d != "/" {
				// the permission bits of the view's own directory are consulted through the view
				// exactly as through the parent (search permission of the directory a walk starts in)
				continue
			}
			if a == d || strings.HasPrefix(d, strings.TrimSuffix(a, "/")+"/") {
				return true
			}
		}
	}
	return false
}
