//go:build verif

// C06 - concurrent namespace operations are linearizable.
package c06

import (
	"errors"
	"fmt"
	"os"
	"sort"
	"testing"

	"github.com/avfs/avfs"
	"github.com/avfs/avfs/vfs/memfs"
	"github.com/avfs/avfs/vfs/orefafs"
	"pgregory.net/rapid"

	"verif/harness/internal/conc"
	"verif/harness/internal/fsx"
	"verif/harness/internal/sched"
	"verif/harness/internal/vt"
)

func init() {
	conc.Invariants = func(v avfs.VFS) []string {
		switch x := v.(type) {
		case *memfs.MemFS:
			return memfs.VerifCheck(x)
		case *orefafs.OrefaFS:
			return orefafs.VerifCheck(x)
		}
		return nil
	}
}

// judge runs one program under one chooser and returns a C06 deviation.
func judge(c *vt.Ctx, p conc.Program, seq map[string]bool, choose sched.Chooser) (*vt.Deviation, *conc.Result) {
	res, err := conc.Execute(p, choose)
	if err != nil {
		c.Inconclusive("execute: " + err.Error())
		return nil, nil
	}
	c.Eval(1)
	if res.Verdict.Kind == "deadlock" {
		// calls that never return have no results: no sequential ordering (in which every call
		// returns) explains the execution. C07 reports the same fact from its own angle.
		d := vt.Dev("prop", "C06", "fs", p.FS, "ops", p.Kinds(), "verdict", "deadlock:"+res.Verdict.Shape)
		d.Detail = fmt.Sprintf("%s: the calls do not return under schedule %v: %s", p, res.Verdict.Trace, res.Verdict.Detail)
		return d, res
	}
	if res.Verdict.Kind != "ok" {
		c.Label("not-judged:" + res.Verdict.Kind) // panic / budget: C07's business
		return nil, res
	}
	if res.Verdict.Contended && res.Verdict.Preempt > 0 {
		c.NonTrivial(vt.Hash64(p.String(), fmt.Sprint(res.Verdict.Trace)))
	}
	if !seq[res.Key()] {
		d := vt.Dev("prop", "C06", "fs", p.FS, "ops", p.Kinds(), "verdict", "nonlinearizable")
		d.Detail = fmt.Sprintf("%s: outcomes+tree\n%s\nmatch none of the %d sequential orders; schedule %v", p, res.Key(), len(seq), res.Verdict.Trace)
		return d, res
	}
	return nil, res
}

func TestCheck(t *testing.T) {
	c := vt.New(t, "C06")
	defer c.Finish()

	for _, f := range c.ReplayFiles() {
		var p conc.Program
		if err := vt.LoadReplay(f, &p); err != nil {
			c.Inconclusive("replay " + f + ": " + err.Error())
			continue
		}
		seq, err := conc.Sequential(p)
		if err != nil {
			c.Inconclusive("replay " + f + ": " + err.Error())
			continue
		}
		if dev, _ := judge(c, p, seq, sched.Replay(p.Trace)); dev != nil {
			if k := c.KnownFor(dev); k != nil {
				c.WitnessLive(k.ID)
			}
			c.Report(dev, p)
		}
	}
	if c.Replay != "" {
		return
	}

	// tier 1: every pair of call templates, every start tree, all schedules with <= p pre-emptions
	maxPre := c.Pick(2, 3)
	for _, kind := range []string{"MemFS", "OrefaFS"} {
		calls := conc.Calls(kind, !c.Thorough())
		prefixes := conc.Prefixes(kind)
		var pn []string
		for n := range prefixes {
			pn = append(pn, n)
		}
		sort.Strings(pn)
		idx := 0
		progs, execs := 0, 0
		for _, name := range pn {
			for i, c1 := range calls {
				for j, c2 := range calls {
					if j < i {
						continue // unordered pair: workers are symmetric
					}
					idx++
					if idx%c.NShards != c.Shard {
						continue
					}
					p := conc.Program{FS: kind, Prefix: prefixes[name], Workers: [][]fsx.Op{c1, c2}}
					seq, err := conc.Sequential(p)
					if err != nil {
						c.Inconclusive("sequential: " + err.Error())
						if errors.Is(err, conc.ErrHang) {
							// C07 decides calls that do not return; every further program would pay the guard again
							c.Finish()
							os.Exit(2)
						}
						continue
					}
					progs++
					cnt, complete := explore(c, p, seq, maxPre, c.Pick(120, 2000))
					execs += cnt
					if !complete {
						c.Label("explore-truncated")
					}
				}
			}
		}
		c.Extra("systematic_"+kind, fmt.Sprintf("%d programs (pairs of %d call templates x %d start trees, this shard), %d scheduled executions, pre-emption bound %d", progs, len(calls), len(pn), execs, maxPre))
	}

	// tier 1b: operands directly in the root directory (MemFS: OrefaFS cannot address its root)
	{
		wf := func(p, d string) fsx.Op { return fsx.Op{K: "WriteFile", P: p, Data: d, Perm: 0o644} }
		prefix := []fsx.Op{{K: "Mkdir", P: "/w/a", Perm: 0o755}, wf("/w/a/x", "AX"), wf("/x0", "X0"), {K: "Mkdir", P: "/r", Perm: 0o755}, wf("/r/x", "RX")}
		lsdir := func(p string) []fsx.Op {
			return []fsx.Op{{K: "Open", P: p, Flag: os.O_RDONLY, H: 1}, {K: "FReadDir", H: 1, N: -1}, {K: "FClose", H: 1}}
		}
		rootCalls := [][]fsx.Op{
			{{K: "Rename", P: "/w/a/x", P2: "/y"}}, {{K: "Rename", P: "/x0", P2: "/w/a/x0"}}, {{K: "Rename", P: "/r/x", P2: "/x0"}}, {{K: "Rename", P: "/w/a", P2: "/a2"}},
			{{K: "Rename", P: "/r", P2: "/w/a/r"}}, {{K: "Link", P: "/w/a/x", P2: "/lx"}}, {{K: "Link", P: "/x0", P2: "/r/lx"}},
			lsdir("/"), lsdir("/w"), lsdir("/r"),
			{{K: "Mkdir", P: "/m", Perm: 0o755}}, {{K: "Remove", P: "/x0"}}, {{K: "RemoveAll", P: "/r"}}, {{K: "Stat", P: "/x0"}},
			{{K: "Open", P: "/x0", Flag: os.O_WRONLY | os.O_CREATE | os.O_EXCL, Perm: 0o644, H: 0}, {K: "FClose", H: 0}}, {{K: "MkdirAll", P: "/r/m/n", Perm: 0o755}},
		}
		i, execs := 0, 0
		for a, c1 := range rootCalls {
			for b, c2 := range rootCalls {
				if b < a {
					continue
				}
				i++
				if i%c.NShards != c.Shard {
					continue
				}
				p := conc.Program{FS: "MemFS", Prefix: prefix, Workers: [][]fsx.Op{c1, c2}}
				seq, err := conc.Sequential(p)
				if err != nil {
					c.Inconclusive("sequential: " + err.Error())
					continue
				}
				n, _ := explore(c, p, seq, maxPre, c.Pick(200, 2000))
				execs += n
			}
		}
		c.Extra("systematic_root_MemFS", fmt.Sprintf("%d scheduled executions of 2-worker programs on root-level operands", execs))
	}

	// tier 2: random programs of 2-3 workers x 1-2 calls under random schedules
	for _, kind := range []string{"MemFS", "OrefaFS"} {
		kind := kind
		calls := conc.Calls(kind, false)
		prefixes := conc.Prefixes(kind)
		var pn []string
		for n := range prefixes {
			pn = append(pn, n)
		}
		sort.Strings(pn)
		c.Rapid("random-"+kind, c.Pick(1500, 25000), func(t *rapid.T) *vt.Failure {
			p := conc.Program{FS: kind, Prefix: prefixes[rapid.SampledFrom(pn).Draw(t, "prefix")]}
			nw := rapid.IntRange(2, 3).Draw(t, "workers")
			for w := 0; w < nw; w++ {
				var ops []fsx.Op
				for k := rapid.IntRange(1, 2).Draw(t, "calls"); k > 0; k-- {
					ops = append(ops, calls[rapid.IntRange(0, len(calls)-1).Draw(t, "call")]...)
				}
				p.Workers = append(p.Workers, ops)
			}
			// the sequential specification enumerates every interleaving of the
			// calls: keep it below a few thousand orders
			for interleavings(p.Workers) > 3000 {
				longest := 0
				for i := range p.Workers {
					if len(p.Workers[i]) > len(p.Workers[longest]) {
						longest = i
					}
				}
				w := p.Workers[longest]
				cut := len(w) - 1
				for cut > 0 && (w[cut].K == "FWrite" || w[cut].K == "FClose" || w[cut].K == "FReadDir" || w[cut].K == "FRead") {
					cut--
				}
				if cut == 0 {
					break
				}
				p.Workers[longest] = w[:cut]
			}
			if interleavings(p.Workers) > 3000 {
				c.Label("random-program-too-large")
				return nil
			}
			seq, err := conc.Sequential(p)
			if err != nil {
				c.Inconclusive("sequential: " + err.Error())
				if errors.Is(err, conc.ErrHang) {
					c.Finish()
					os.Exit(2)
				}
				return nil
			}
			choices := rapid.SliceOfN(rapid.IntRange(0, 5), 0, 60).Draw(t, "schedule")
			chooser := func(step int, en []sched.Choice, prev int, prevEnabled bool) int {
				if step < len(choices) {
					return choices[step] % len(en)
				}
				return sched.NonPreemptive(step, en, prev, prevEnabled)
			}
			dev, res := judge(c, p, seq, chooser)
			c.Label("workers:" + fmt.Sprint(nw))
			if dev != nil {
				p.Trace = res.Verdict.Trace
				return &vt.Failure{Dev: dev, Replay: p}
			}
			if res != nil && len(res.Invariant) > 0 {
				c.Label("invariant-violation-seen(C05)")
			}
			return nil
		})
	}
}

// explore enumerates the schedules of one program.
func explore(c *vt.Ctx, p conc.Program, seq map[string]bool, maxPre, maxExec int) (int, bool) {
	var first *vt.Deviation
	var firstTrace []int
	n, complete := exploreProg(p, maxPre, maxExec, func(res *conc.Result) bool {
		c.Eval(1)
		c.Label("verdict:" + res.Verdict.Kind)
		if res.Verdict.Kind == "deadlock" && first == nil {
			// calls that never return have no results: no sequential ordering explains that
			first = vt.Dev("prop", "C06", "fs", p.FS, "ops", p.Kinds(), "verdict", "deadlock:"+res.Verdict.Shape)
			first.Detail = fmt.Sprintf("%s: the calls do not return under schedule %v: %s", p, res.Verdict.Trace, res.Verdict.Detail)
			firstTrace = res.Verdict.Trace
			return false
		}
		if res.Verdict.Kind != "ok" {
			return true
		}
		if res.Verdict.Contended && res.Verdict.Preempt > 0 {
			c.NonTrivial(vt.Hash64(p.String(), fmt.Sprint(res.Verdict.Trace)))
			c.Sample("sys-"+p.FS, map[string]any{"program": p.String(), "schedule": res.Verdict.Trace, "outcomes": res.Outcomes})
		}
		if !seq[res.Key()] && first == nil {
			first = vt.Dev("prop", "C06", "fs", p.FS, "ops", p.Kinds(), "verdict", "nonlinearizable")
			first.Detail = fmt.Sprintf("%s: outcomes+tree\n%s\nmatch none of the %d sequential orders; schedule %v", p, res.Key(), len(seq), res.Verdict.Trace)
			firstTrace = res.Verdict.Trace
			return false
		}
		return true
	})
	if first != nil {
		p.Trace = firstTrace
		c.Report(first, p)
	}
	return n, complete
}

// exploreProg runs the systematic enumeration for one program.
func exploreProg(p conc.Program, maxPre, maxExec int, visit func(*conc.Result) bool) (int, bool) {
	var last *conc.Result
	var pending *conc.Pending
	mk := func() *sched.Sched {
		pending = conc.Prepare(p)
		return pending.S
	}
	return sched.Explore(mk, maxPre, maxExec, func(v sched.Verdict) bool {
		last = pending.Finish(v)
		return visit(last)
	})
}

// interleavings is the multinomial coefficient of the workers' program lengths.
func interleavings(ws [][]fsx.Op) int {
	n := 1
	total := 0
	for _, w := range ws {
		for k := 1; k <= len(w); k++ {
			total++
			n = n * total / k
			if n > 1<<40 {
				return n
			}
		}
	}
	return n
}
