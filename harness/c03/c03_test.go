// C03 - permission and ownership enforcement equals Linux discretionary access control.
package c03

import (
	"fmt"
	"os"
	"strings"
	"testing"

	"pgregory.net/rapid"

	"verif/harness/internal/fsx"
	"verif/harness/internal/kernel"
	"verif/harness/internal/vt"
	"verif/harness/internal/world"
)

// Node is one node of the configuration: owner, group, 12 mode bits.
type Node struct {
	Path  string `json:"path"`
	Kind  string `json:"kind"` // d | f
	Owner string `json:"owner"`
	Group string `json:"group"` // name of a user whose gid is used
	Mode  uint32 `json:"mode"`
}

// Act is one call by one user.
type Act struct {
	User  string `json:"user"`
	Umask int    `json:"umask"`
	Op    fsx.Op `json:"op"`
}

// Case is a replayable C03 case.
type Case struct {
	Nodes []Node `json:"nodes"`
	Acts  []Act  `json:"acts"`
}

const (
	d1, d2, leaf = "/w/d1", "/w/d1/d2", "/w/d1/d2/f"
	e1           = "/w/e1"
	tgt          = "/w/e1/t" // an existing file in the second directory (rename/link targets, sticky rules)
)

// classOf: which permission class of the node applies to the actor.
func classOf(ids map[string]world.Ident, n Node, actor string) string {
	a := ids[actor]
	switch {
	case a.Uid == 0:
		return "admin"
	case ids[n.Owner].Uid == a.Uid:
		return "owner"
	case ids[n.Group].Gid == a.Gid:
		return "group"
	}
	return "other"
}

func runCase(c *vt.Ctx, kt *kernel.Thread, cs Case) *vt.Deviation {
	w, err := world.New(kt, "MemFS", 0o022)
	if err != nil {
		c.Inconclusive("world: " + err.Error())
		return nil
	}
	defer w.Close()
	ids, err := w.SetupUsers()
	if err != nil {
		c.Inconclusive("users: " + err.Error())
		return nil
	}
	// /w must be traversable and writable by everybody: the configuration is below it
	for _, o := range []fsx.Op{{K: "Chmod", P: "/w", Perm: 0o777}} {
		if _, _, dev := w.Step("C03", o); dev != nil {
			c.Label("build-deviation")
			return nil
		}
	}
	for _, n := range cs.Nodes {
		var ops []fsx.Op
		if n.Path == "/" {
			// the root itself: only its owner and mode are set
		} else if n.Kind == "d" {
			ops = append(ops, fsx.Op{K: "Mkdir", P: n.Path, Perm: 0o777})
		} else {
			ops = append(ops, fsx.Op{K: "WriteFile", P: n.Path, Data: "data", Perm: 0o666})
		}
		ops = append(ops, fsx.Op{K: "Chown", P: n.Path, Uid: ids[n.Owner].Uid, Gid: ids[n.Group].Gid}, fsx.Op{K: "Chmod", P: n.Path, Perm: n.Mode})
		for _, o := range ops {
			if _, _, dev := w.Step("C03", o); dev != nil {
				c.Label("build-deviation")
				return nil // building as the administrator is C01's business
			}
		}
	}
	for _, a := range cs.Acts {
		if a.Op.K == "Link" && protectedHardlinks() && a.User != "root" {
			// fs.protected_hardlinks=1 (a sysctl hardening, not the DAC model of the
			// property): linking a file one does not own needs read and write access
			// to it, else EPERM. Such calls are not issued while the sysctl is on.
			if r := w.Snap.Lookup(fsx.Physical(w.Snap, w.Cwd, a.Op.P, false)); r != nil && r.Type == "f" {
				id := ids[a.User]
				var bits uint32
				switch {
				case r.Uid == id.Uid:
					bits = r.Perm >> 6
				case r.Gid == id.Gid:
					bits = r.Perm >> 3
				default:
					bits = r.Perm
				}
				if r.Uid != id.Uid && (bits&6 != 6 || r.Perm&0o4000 != 0 || r.Perm&0o2010 == 0o2010) {
					c.Excluded("sysctl:protected_hardlinks")
					continue
				}
			} else if r != nil && r.Type == "d" && r.Uid != ids[a.User].Uid {
				// the same sysctl refuses (EPERM) any source that is not a regular file unless the
				// caller owns it, before the new directory is looked at
				c.Excluded("sysctl:protected_hardlinks")
				continue
			}
		}
		if a.Op.K == "RemoveAll" && a.User != "root" {
			// os.RemoveAll removes a directory that is not empty by opening its PARENT for reading
			// and working from that descriptor: without read permission on the parent it gives up
			// with EACCES although every unlink it needs would be allowed (rm -r succeeds). That is
			// how package os walks, not a decision of the kernel about the caller's rights, and the
			// property is about the latter: such calls are not issued.
			tgt := w.Snap.Lookup(fsx.Physical(w.Snap, w.Cwd, a.Op.P, false))
			par := w.Snap.Lookup(fsx.Physical(w.Snap, w.Cwd, parentOf(a.Op.P), true))
			if tgt != nil && tgt.Type == "d" && par != nil && !mayRead(par, ids[a.User]) && hasChildren(w.Snap, tgt.Path) {
				c.Excluded("os.RemoveAll-needs-readable-parent")
				continue
			}
		}
		c.Eval(1)
		w.T.Umask(a.Umask)
		_ = w.V.SetUMask(os.FileMode(a.Umask))
		oe, ok, dev := w.StepAs("C03", a.Op, ids[a.User])
		if dev != nil && a.Op.K == "RemoveAll" && dev.Fields["expected"] == "tree" && ok.Err != "ok" && oe.Err == ok.Err {
			// Both sides refused with the same errno; what a refused RemoveAll had already removed is
			// not a permission decision: os.RemoveAll gives up early when it cannot open the PARENT
			// directory for reading (an artefact of how it walks), MemFS empties what it may and fails
			// on the entry it may not unlink, as rm -r does. The two trees differ from here on.
			c.Label("removeall-refused-partial-effects-not-compared")
			return nil
		}
		if dev != nil {
			// signature: the call, the actor's class on each node, what was expected
			for _, n := range cs.Nodes {
				key := map[string]string{d1: "c1", d2: "c2", leaf: "cl", e1: "ce"}[n.Path]
				if key != "" {
					d := classOf(ids, n, a.User)
					dev.Fields[key] = d
				}
			}
			dev.Fields["actor"] = map[bool]string{true: "admin", false: "user"}[a.User == "root"]
			dev.Fields["special"] = special(cs.Nodes)
			dev.Detail += fmt.Sprintf(" [as %s, nodes %+v]", a.User, cs.Nodes)
			return dev
		}
		_, _ = oe, ok
	}
	return nil
}

func parentOf(p string) string {
	i := strings.LastIndex(p, "/")
	if i <= 0 {
		return "/"
	}
	return p[:i]
}

func mayRead(r *fsx.Rec, id world.Ident) bool {
	switch {
	case r.Uid == id.Uid:
		return r.Perm&0o400 != 0
	case r.Gid == id.Gid:
		return r.Perm&0o040 != 0
	}
	return r.Perm&0o004 != 0
}

func hasChildren(s fsx.Snap, dir string) bool {
	for _, r := range s {
		if strings.HasPrefix(r.Path, dir+"/") {
			return true
		}
	}
	return false
}

func special(ns []Node) string {
	var s []string
	for _, n := range ns {
		if n.Mode&0o1000 != 0 && n.Kind == "d" {
			s = append(s, "sticky")
		}
		if n.Mode&0o2000 != 0 && n.Kind == "d" {
			s = append(s, "setgid-dir")
		}
		if n.Mode&0o6000 != 0 && n.Kind == "f" {
			s = append(s, "suid-file")
		}
	}
	if len(s) == 0 {
		return "none"
	}
	return strings.Join(s, ",")
}

// modeFor builds a 9-bit mode whose triplet for class cls is p and whose other
// triplets are the complement, so that selecting the wrong class flips the answer.
func modeFor(cls string, p uint32) uint32 {
	q := ^p & 7
	switch cls {
	case "owner":
		return p<<6 | q<<3 | q
	case "group":
		return q<<6 | p<<3 | q
	}
	return q<<6 | q<<3 | p
}

// ownerFor returns (owner, group) of a node so that actor u1 is in class cls.
func ownerFor(cls string) (string, string) {
	switch cls {
	case "owner":
		return "u1", "u3" // owner wins even if the group differs
	case "group":
		return "u2", "u1" // same group (g1), other owner
	}
	return "u3", "u3"
}

// calls on the fixed shape /w/d1/d2/f (+ /w/e1 for two-directory calls)
func calls() []fsx.Op {
	return []fsx.Op{
		{K: "Stat", P: leaf}, {K: "Lstat", P: leaf}, {K: "ReadFile", P: leaf}, {K: "ReadDir", P: d2}, {K: "Chdir", P: d2},
		{K: "Open", P: leaf, Flag: os.O_RDONLY, H: 0}, {K: "Open", P: leaf, Flag: os.O_WRONLY, H: 0}, {K: "Open", P: leaf, Flag: os.O_RDWR, H: 0},
		{K: "Open", P: leaf, Flag: os.O_RDONLY | os.O_TRUNC, H: 0}, {K: "Open", P: leaf, Flag: os.O_WRONLY | os.O_APPEND, H: 0},
		{K: "Open", P: d2 + "/new", Flag: os.O_WRONLY | os.O_CREATE | os.O_EXCL, Perm: 0o666, H: 0}, {K: "Open", P: leaf, Flag: os.O_RDWR | os.O_CREATE, Perm: 0o666, H: 0},
		{K: "WriteFile", P: leaf, Data: "W", Perm: 0o666}, {K: "WriteFile", P: d2 + "/new", Data: "W", Perm: 0o640},
		{K: "Mkdir", P: d2 + "/newdir", Perm: 0o777}, {K: "MkdirAll", P: d2 + "/n1/n2", Perm: 0o755},
		{K: "Remove", P: leaf}, {K: "Remove", P: d2}, {K: "RemoveAll", P: leaf},
		{K: "Rename", P: leaf, P2: d2 + "/g"}, {K: "Rename", P: leaf, P2: e1 + "/g"}, {K: "Rename", P: d2, P2: e1 + "/moved"},
		{K: "Link", P: leaf, P2: e1 + "/hl"}, {K: "Link", P: leaf, P2: d2 + "/hl"}, {K: "Link", P: d2, P2: e1 + "/dl"}, {K: "Link", P: e1, P2: d2 + "/dl"}, {K: "Symlink", P: "f", P2: d2 + "/sl"},
		// the file holds 4 bytes: shorter, empty, the same size (nothing to change is still a write), longer
		{K: "Truncate", P: leaf, Size: 1}, {K: "Truncate", P: leaf, Size: 0}, {K: "Truncate", P: leaf, Size: 4}, {K: "Truncate", P: leaf, Size: 9},
		// a directory that is not empty: RemoveAll must list it (read), empty it (write, search) and unlink it from its parent
		{K: "RemoveAll", P: d2}, {K: "RemoveAll", P: d1}, {K: "Remove", P: e1}, {K: "RemoveAll", P: e1},
		{K: "Open", P: d2, Flag: os.O_RDONLY, H: 0}, {K: "ReadDir", P: d1}, {K: "Chdir", P: d1}, {K: "Stat", P: d2}, {K: "WalkDir", P: d1},
		{K: "Rename", P: leaf, P2: e1 + "/g"}, {K: "Rename", P: e1, P2: d2 + "/e"}, {K: "Mkdir", P: e1 + "/sub", Perm: 0o755},
		// an existing target: replacing or removing somebody else's entry in a sticky directory
		{K: "Rename", P: leaf, P2: tgt}, {K: "Rename", P: tgt, P2: d2 + "/g2"}, {K: "Remove", P: tgt}, {K: "Link", P: leaf, P2: tgt}, {K: "Rename", P: tgt, P2: e1 + "/t2"},
		{K: "Open", P: tgt, Flag: os.O_WRONLY | os.O_TRUNC, H: 0}, {K: "RemoveAll", P: tgt},
		{K: "Chmod", P: leaf, Perm: 0o600}, {K: "Chmod", P: d2, Perm: 0o700}, {K: "Chtimes", P: leaf, MT: 1000000000},
		{K: "Chown", P: leaf, Uid: -1, Gid: -1}, {K: "Chown", P: leaf, Uid: 1001, Gid: 1001}, {K: "Chown", P: leaf, Uid: 1003, Gid: -1}, {K: "Lchown", P: leaf, Uid: -1, Gid: 1002},
	}
}

func TestCheck(t *testing.T) {
	c := vt.New(t, "C03")
	defer c.Finish()
	kt, err := kernel.New("/dev/shm")
	if err != nil {
		c.Inconclusive("kernel oracle unavailable: " + err.Error())
		return
	}
	defer kt.Close()
	for _, f := range c.ReplayFiles() {
		var cs Case
		if err := vt.LoadReplay(f, &cs); err != nil {
			c.Inconclusive("replay " + f + ": " + err.Error())
			continue
		}
		if dev := runCase(c, kt, cs); dev != nil {
			if k := c.KnownFor(dev); k != nil {
				c.WitnessLive(k.ID)
			}
			c.Report(dev, cs)
		}
	}
	if c.Replay != "" {
		return
	}

	// bounded-exhaustive over the bits that can matter for one call shape
	classes := []string{"owner", "group", "other"}
	ops := calls()
	idx, cases := 0, 0
	stride := c.Pick(6, 1) // quick: every 6th configuration of this shard
	for _, c1 := range classes {
		for _, x1 := range []uint32{1, 0} { // search bit on d1
			for _, c2 := range classes {
				for p2 := uint32(0); p2 < 8; p2++ {
					for _, sp2 := range []uint32{0, 0o1000, 0o2000} {
						for _, cl := range classes {
							for pl := uint32(0); pl < 8; pl++ {
								for _, ce := range []string{"owner", "other"} {
									idx++
									if idx%c.NShards != c.Shard || (idx/c.NShards)%stride != 0 {
										continue
									}
									o1, g1 := ownerFor(c1)
									o2, g2 := ownerFor(c2)
									ol, gl := ownerFor(cl)
									oe, ge := ownerFor(ce)
									// the second directory is sticky in half of the configurations; the file in
									// it belongs to the caller or to somebody else
									spE := []uint32{0, 0o1000}[(idx/c.NShards/stride)%2]
									ot, gt := ownerFor([]string{"owner", "other"}[(idx/c.NShards/stride/2)%2])
									nodes := []Node{
										{d1, "d", o1, g1, modeFor(c1, x1|4)},
										{d2, "d", o2, g2, modeFor(c2, p2) | sp2},
										{leaf, "f", ol, gl, modeFor(cl, pl)},
										{e1, "d", oe, ge, modeFor(ce, 7) | spE},
										{tgt, "f", ot, gt, 0o644},
									}
									// one call per configuration, rotating through the calls; every
									// (configuration class, call) pair is met many times over the domain
									op := ops[cases%len(ops)]
									cases++
									cs := Case{Nodes: nodes, Acts: []Act{{User: "u1", Umask: []int{0o022, 0o077, 0, 0o027}[cases%4], Op: op}}}
									if dev := runCase(c, kt, cs); dev != nil {
										c.Report(dev, cs)
									}
									if x1 == 0 || c2 != "owner" || cl != "owner" || sp2 != 0 || cs.Acts[0].Umask != 0o022 {
										c.NonTrivial(vt.Hash64(fmt.Sprintf("%+v", cs)))
									}
									if cases%499 == 0 {
										c.Sample(fmt.Sprint(cases%5), map[string]any{"nodes": nodes, "act": cs.Acts[0].Op.String(), "as": "u1"})
									}
								}
							}
						}
					}
				}
			}
		}
	}
	c.Extra("configurations", fmt.Sprintf("%d cases of this shard from 3 owner classes x search bit on d1, 3 classes x 8 rwx x {plain, sticky, setgid} on d2, 3 classes x 8 rwx on the file, 2 classes on the second directory; calls rotated over %d call shapes, umask over 4 values", cases, len(ops)))

	// the sticky bit alone: every directory lets everybody in (0777), so that only "sticky and
	// neither the directory's nor the entry's owner" decides - for removing, renaming away,
	// renaming within, and REPLACING an existing entry (the victim of a rename is protected too)
	{
		who := map[bool]string{true: "u1", false: "u3"}
		n := 0
		for _, dirMine := range []bool{true, false} {
			for _, sticky := range []uint32{0, 0o1000} {
				for _, victimMine := range []bool{true, false} {
					for _, srcMine := range []bool{true, false} {
						for ci, call := range []fsx.Op{{K: "Remove", P: tgt}, {K: "RemoveAll", P: tgt}, {K: "Rename", P: tgt, P2: d2 + "/away"}, {K: "Rename", P: tgt, P2: e1 + "/t2"},
							{K: "Rename", P: leaf, P2: tgt}, {K: "Rename", P: e1 + "/s", P2: tgt}, {K: "Rename", P: e1 + "/s", P2: e1 + "/s2"}, {K: "Remove", P: e1 + "/s"}} {
							n++
							if n%c.NShards != c.Shard {
								continue
							}
							nodes := []Node{{d1, "d", "u2", "u2", 0o777}, {d2, "d", "u2", "u2", 0o777}, {leaf, "f", who[srcMine], who[srcMine], 0o666},
								{e1, "d", who[dirMine], who[dirMine], 0o777 | sticky}, {tgt, "f", who[victimMine], who[victimMine], 0o666}, {e1 + "/s", "f", who[srcMine], who[srcMine], 0o666}}
							cs := Case{Nodes: nodes, Acts: []Act{{User: "u1", Umask: 0o022, Op: call}}}
							if dev := runCase(c, kt, cs); dev != nil {
								c.Report(dev, cs)
							}
							c.NonTrivial(vt.Hash64("sticky", fmt.Sprint(dirMine, sticky, victimMine, srcMine, ci)))
						}
					}
				}
			}
		}
		c.Sample("sticky", map[string]any{"cases": n, "rule": "owner of the directory x sticky x owner of the victim x owner of the source x 8 calls, all modes 0777/0666"})
	}

	// the root directory as the containing directory: a path walk checks the search bit of every
	// directory it passes THROUGH; for an entry directly in the root the root's own bits decide
	{
		rootCalls := []fsx.Op{{K: "Mkdir", P: "/n", Perm: 0o755}, {K: "MkdirAll", P: "/n/m", Perm: 0o755}, {K: "WriteFile", P: "/nf", Data: "x", Perm: 0o644},
			{K: "Open", P: "/nc", Flag: os.O_WRONLY | os.O_CREATE | os.O_EXCL, Perm: 0o644, H: 0}, {K: "Symlink", P: "w", P2: "/nl"}, {K: "Link", P: leaf, P2: "/nh"},
			{K: "Rename", P: leaf, P2: "/nr"}, {K: "Remove", P: "/rf"}, {K: "Rename", P: "/rf", P2: "/rf2"}, {K: "Stat", P: "/rf"}, {K: "ReadDir", P: "/"}, {K: "Chdir", P: "/"}, {K: "Stat", P: "/w"}}
		n := 0
		for _, cr := range classes {
			for pr := uint32(0); pr < 8; pr++ {
				for ci, call := range rootCalls {
					n++
					if n%c.NShards != c.Shard {
						continue
					}
					or, gr := ownerFor(cr)
					nodes := []Node{{"/", "d", or, gr, modeFor(cr, pr)}, {"/rf", "f", "u1", "u1", 0o666},
						{d1, "d", "u1", "u1", 0o777}, {d2, "d", "u1", "u1", 0o777}, {leaf, "f", "u1", "u1", 0o666}}
					// (nodes are created before the root's mode is set: the root entry goes last)
					nodes = append(nodes[1:], nodes[0])
					cs := Case{Nodes: nodes, Acts: []Act{{User: "u1", Umask: 0o022, Op: call}}}
					if dev := runCase(c, kt, cs); dev != nil {
						dev.Fields["root"] = "yes"
						c.Report(dev, cs)
					}
					c.NonTrivial(vt.Hash64("root", cr, fmt.Sprint(pr, ci)))
				}
			}
		}
		c.Sample("root-level", map[string]any{"root": "3 classes x 8 rwx on /", "calls": len(rootCalls)})
	}

	// random: arbitrary 12-bit modes, histories of 1-4 calls by alternating users (incl. the administrator)
	users := []string{"u1", "u2", "u3", "root"}
	c.Rapid("random", c.Pick(1500, 40000), func(t *rapid.T) *vt.Failure {
		mode := rapid.Custom(func(t *rapid.T) uint32 {
			m := uint32(rapid.IntRange(0, 0o777).Draw(t, "perm"))
			if rapid.IntRange(0, 3).Draw(t, "special") == 0 {
				m |= uint32(rapid.SampledFrom([]int{0o1000, 0o2000, 0o4000, 0o6000}).Draw(t, "sbits"))
			}
			return m
		})
		usr := rapid.SampledFrom([]string{"u1", "u2", "u3", "root"})
		cs := Case{Nodes: []Node{
			{d1, "d", usr.Draw(t, "o1"), usr.Draw(t, "g1"), mode.Draw(t, "m1") | 0o100},
			{d2, "d", usr.Draw(t, "o2"), usr.Draw(t, "g2"), mode.Draw(t, "m2")},
			{leaf, "f", usr.Draw(t, "ol"), usr.Draw(t, "gl"), mode.Draw(t, "ml")},
			{e1, "d", usr.Draw(t, "oe"), usr.Draw(t, "ge"), mode.Draw(t, "me")},
			{tgt, "f", usr.Draw(t, "ot"), usr.Draw(t, "gt"), mode.Draw(t, "mt")},
		}}
		for n := rapid.IntRange(1, 4).Draw(t, "acts"); n > 0; n-- {
			op := ops[rapid.IntRange(0, len(ops)-1).Draw(t, "op")]
			cs.Acts = append(cs.Acts, Act{User: rapid.SampledFrom(users).Draw(t, "user"), Umask: rapid.SampledFrom([]int{0, 0o022, 0o027, 0o077}).Draw(t, "umask"), Op: op})
			if op.K == "Open" {
				cs.Acts = append(cs.Acts, Act{User: cs.Acts[len(cs.Acts)-1].User, Umask: 0o022, Op: fsx.Op{K: rapid.SampledFrom([]string{"FChmod", "FChown", "FWrite", "FRead", "FTruncate", "FStat"}).Draw(t, "hop"), H: 0, Perm: 0o600, Uid: 1002, Gid: -1, Data: "h", N: 2, Size: 1}})
				cs.Acts = append(cs.Acts, Act{User: "root", Umask: 0o022, Op: fsx.Op{K: "FClose", H: 0}})
			}
		}
		for _, a := range cs.Acts {
			c.Label("op:" + a.Op.K)
			c.Label("as:" + a.User)
		}
		if dev := runCase(c, kt, cs); dev != nil {
			return &vt.Failure{Dev: dev, Replay: cs}
		}
		c.NonTrivial(vt.Hash64(fmt.Sprintf("%+v", cs)))
		return nil
	})
}

var protHL = -1

func protectedHardlinks() bool {
	if protHL < 0 {
		b, err := os.ReadFile("/proc/sys/fs/protected_hardlinks")
		protHL = 1
		if err == nil && strings.TrimSpace(string(b)) == "0" {
			protHL = 0
		}
	}
	return protHL == 1
}
