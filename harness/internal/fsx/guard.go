package fsx

import (
	"runtime"
	"strings"
	"time"
)

// A guard that only looks at the wall clock turns a starved process (a loaded machine, a
// paused VM) into a false HANG. Guarded work therefore runs in goroutines whose entry
// function carries a marker name, and when the bound is reached the verdict is taken from
// what those goroutines are doing:
//
//   - every marked goroutine is parked in a lock acquisition (sync.Mutex / sync.RWMutex /
//     semacquire): nothing in this process will ever release it - the runner is
//     single-threaded and older marked goroutines are hung themselves - so the call does
//     not return: HANG, a fact about the code under test;
//   - some marked goroutine is runnable or running: the work is slow or starved, or it is
//     an endless loop. It gets more time (up to guardPatience more bounds); only a call
//     that is still not back after that is reported as HANG (endless loop).
const guardPatience = 20

// guardedCall runs f in a marked goroutine under the bound; ok is false when f did not
// return (the goroutine is abandoned).
func guardedCall[T any](bound time.Duration, f func() T) (res T, ok bool, note string) {
	ch := make(chan T, 1)
	go verifGuardedGoroutine(func() { ch <- f() })
	t := time.NewTimer(bound)
	defer t.Stop()
	select {
	case res = <-ch:
		return res, true, ""
	case <-t.C:
	}
	for i := 0; i < guardPatience; i++ {
		if markedAllLockBlocked() {
			return res, false, "blocked in a lock acquisition that nothing can release (bound " + bound.String() + ")"
		}
		t.Reset(bound)
		select {
		case res = <-ch:
			return res, true, ""
		case <-t.C:
		}
	}
	return res, false, "no return within " + (time.Duration(guardPatience+1) * bound).String() + " while runnable (endless loop)"
}

//go:noinline
func verifGuardedGoroutine(f func()) { f() }

// markedAllLockBlocked inspects all goroutine stacks: true when at least one goroutine runs
// under verifGuardedGoroutine and every such goroutine waits for a lock.
func markedAllLockBlocked() bool {
	buf := make([]byte, 1<<20)
	for {
		n := runtime.Stack(buf, true)
		if n < len(buf) {
			buf = buf[:n]
			break
		}
		buf = make([]byte, 2*len(buf))
	}
	found := false
	for _, g := range strings.Split(string(buf), "\n\n") {
		if !strings.Contains(g, "fsx.verifGuardedGoroutine") {
			continue
		}
		found = true
		head := g
		if i := strings.IndexByte(g, '\n'); i >= 0 {
			head = g[:i]
		}
		// "goroutine 12 [sync.Mutex.Lock, 2 minutes]:"
		i, j := strings.IndexByte(head, '['), strings.IndexByte(head, ']')
		if i < 0 || j < i {
			return false
		}
		state := head[i+1 : j]
		if k := strings.IndexByte(state, ','); k >= 0 {
			state = state[:k]
		}
		if !(strings.HasPrefix(state, "sync.") || state == "semacquire") {
			return false
		}
	}
	return found
}
