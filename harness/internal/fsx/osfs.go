// Package fsx holds the operation language, the executor, the package-os
// adapter (the kernel side), error normalisation, snapshots and situation
// classes shared by the file-system properties.  DESIGN.md 3.2, 3.4, 3.5.
package fsx

import (
	"io/fs"
	"os"
	"path/filepath"
	"syscall"
	"time"

	"github.com/avfs/avfs"
)

// FS is the subset of avfs.VFS the executor drives; avfs.VFS satisfies it and
// OSFS implements it with package os (to be called on a kernel oracle thread).
type FS interface {
	Chdir(dir string) error
	Chmod(name string, mode fs.FileMode) error
	Chown(name string, uid, gid int) error
	Chtimes(name string, atime, mtime time.Time) error
	CreateTemp(dir, pattern string) (avfs.File, error)
	EvalSymlinks(path string) (string, error)
	Getwd() (string, error)
	Glob(pattern string) ([]string, error)
	Lchown(name string, uid, gid int) error
	Link(oldname, newname string) error
	Lstat(name string) (fs.FileInfo, error)
	Mkdir(name string, perm fs.FileMode) error
	MkdirAll(path string, perm fs.FileMode) error
	MkdirTemp(dir, pattern string) (string, error)
	OpenFile(name string, flag int, perm fs.FileMode) (avfs.File, error)
	ReadDir(name string) ([]fs.DirEntry, error)
	ReadFile(name string) ([]byte, error)
	Readlink(name string) (string, error)
	Remove(name string) error
	RemoveAll(path string) error
	Rename(oldpath, newpath string) error
	SameFile(fi1, fi2 fs.FileInfo) bool
	Stat(name string) (fs.FileInfo, error)
	Symlink(oldname, newname string) error
	ToSysStat(info fs.FileInfo) avfs.SysStater
	Truncate(name string, size int64) error
	WalkDir(root string, fn fs.WalkDirFunc) error
	WriteFile(name string, data []byte, perm fs.FileMode) error
}

// OSFS is package os behind the FS interface. It holds no state: root, cwd,
// umask and identity are those of the calling (oracle) thread.
type OSFS struct{}

var _ FS = OSFS{}

func (OSFS) Chdir(dir string) error                    { return os.Chdir(dir) }
func (OSFS) Chmod(name string, mode fs.FileMode) error { return os.Chmod(name, mode) }
func (OSFS) Chown(name string, uid, gid int) error     { return os.Chown(name, uid, gid) }
func (OSFS) Chtimes(name string, a, m time.Time) error { return os.Chtimes(name, a, m) }
func (OSFS) EvalSymlinks(path string) (string, error)  { return filepath.EvalSymlinks(path) }
func (OSFS) Getwd() (string, error)                    { return os.Getwd() }
func (OSFS) Glob(pattern string) ([]string, error)     { return filepath.Glob(pattern) }
func (OSFS) Lchown(name string, uid, gid int) error    { return os.Lchown(name, uid, gid) }
func (OSFS) Link(o, n string) error                    { return os.Link(o, n) }
func (OSFS) Lstat(name string) (fs.FileInfo, error)    { return os.Lstat(name) }
func (OSFS) Mkdir(name string, perm fs.FileMode) error { return os.Mkdir(name, perm) }
func (OSFS) MkdirAll(p string, perm fs.FileMode) error { return os.MkdirAll(p, perm) }
func (OSFS) MkdirTemp(dir, pattern string) (string, error) {
	return os.MkdirTemp(dir, pattern)
}
func (OSFS) ReadDir(name string) ([]fs.DirEntry, error) { return os.ReadDir(name) }
func (OSFS) ReadFile(name string) ([]byte, error)       { return os.ReadFile(name) }
func (OSFS) Readlink(name string) (string, error)       { return os.Readlink(name) }
func (OSFS) Remove(name string) error                   { return os.Remove(name) }
func (OSFS) RemoveAll(path string) error                { return os.RemoveAll(path) }
func (OSFS) Rename(o, n string) error                   { return os.Rename(o, n) }
func (OSFS) SameFile(a, b fs.FileInfo) bool             { return os.SameFile(a, b) }
func (OSFS) Stat(name string) (fs.FileInfo, error)      { return os.Stat(name) }
func (OSFS) Symlink(o, n string) error                  { return os.Symlink(o, n) }
func (OSFS) Truncate(name string, size int64) error     { return os.Truncate(name, size) }
func (OSFS) WalkDir(root string, fn fs.WalkDirFunc) error {
	return filepath.WalkDir(root, fn)
}
func (OSFS) WriteFile(name string, data []byte, perm fs.FileMode) error {
	return os.WriteFile(name, data, perm)
}

func (OSFS) OpenFile(name string, flag int, perm fs.FileMode) (avfs.File, error) {
	f, err := os.OpenFile(name, flag, perm)
	if err != nil {
		return (*os.File)(nil), err
	}
	return f, nil
}

func (OSFS) Open(name string) (avfs.File, error) {
	f, err := os.Open(name)
	if err != nil {
		return (*os.File)(nil), err
	}
	return f, nil
}

func (OSFS) Create(name string) (avfs.File, error) {
	f, err := os.Create(name)
	if err != nil {
		return (*os.File)(nil), err
	}
	return f, nil
}

func (OSFS) CreateTemp(dir, pattern string) (avfs.File, error) {
	f, err := os.CreateTemp(dir, pattern)
	if err != nil {
		return (*os.File)(nil), err
	}
	return f, nil
}

type osStat struct{ st *syscall.Stat_t }

func (s osStat) Gid() int      { return int(s.st.Gid) }
func (s osStat) Uid() int      { return int(s.st.Uid) }
func (s osStat) Nlink() uint64 { return uint64(s.st.Nlink) }

// ToSysStat adapts a syscall.Stat_t.
func (OSFS) ToSysStat(info fs.FileInfo) avfs.SysStater {
	st, ok := info.Sys().(*syscall.Stat_t)
	if !ok {
		return osStat{&syscall.Stat_t{}}
	}
	return osStat{st}
}
