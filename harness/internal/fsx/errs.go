package fsx

import (
	"errors"
	"fmt"
	"io"
	"io/fs"
	"os"
	"strings"
	"syscall"

	"github.com/avfs/avfs"
)

var errnoNames = map[int]string{
	1: "EPERM", 2: "ENOENT", 9: "EBADF", 13: "EACCES", 16: "EBUSY", 17: "EEXIST", 18: "EXDEV", 20: "ENOTDIR",
	21: "EISDIR", 22: "EINVAL", 27: "EFBIG", 28: "ENOSPC", 36: "ENAMETOOLONG", 39: "ENOTEMPTY", 40: "ELOOP", 29: "ESPIPE", 12: "ENOMEM", 75: "EOVERFLOW",
}

func errnoName(n int) string {
	if s, ok := errnoNames[n]; ok {
		return s
	}
	return fmt.Sprintf("E%d", n)
}

// ErrKind normalises an error from either side into an outcome kind:
// ok | EOF | closed | invalid | negoff | E<errno> | win:<n> | custom:<text> | other:<text>.
// Error strings, Op and Path fields are deliberately dropped (DESIGN.md 3.2).
func ErrKind(err error) string {
	if err == nil {
		return "ok"
	}
	if err == io.EOF {
		return "EOF"
	}
	if err == io.ErrUnexpectedEOF {
		return "UEOF"
	}
	for i := 0; i < 8; i++ {
		switch e := err.(type) {
		case *fs.PathError:
			err = e.Err
			continue
		case *os.LinkError:
			err = e.Err
			continue
		case *os.SyscallError:
			err = e.Err
			continue
		}
		break
	}
	switch e := err.(type) {
	case syscall.Errno:
		return errnoName(int(e))
	case avfs.LinuxError:
		return errnoName(int(e))
	case avfs.WindowsError:
		return fmt.Sprintf("win:%d", int(e))
	case avfs.CustomError:
		switch e {
		case avfs.ErrNegativeOffset:
			return "negoff"
		case avfs.ErrFileClosing:
			return "closed"
		}
		return "custom:" + e.Error()
	}
	switch {
	case err == io.EOF:
		return "EOF"
	case errors.Is(err, fs.ErrClosed):
		return "closed"
	case errors.Is(err, fs.ErrInvalid):
		return "invalid"
	case errors.Is(err, fs.ErrExist) && err == fs.ErrExist:
		return "EEXIST"
	case errors.Is(err, fs.ErrNotExist) && err == fs.ErrNotExist:
		return "ENOENT"
	}
	s := err.Error()
	switch {
	case s == "negative offset":
		return "negoff"
	case s == "use of closed file":
		return "closed"
	case strings.Contains(s, "pattern contains path separator"):
		return "custom:pattern contains path separator"
	case s == "EvalSymlinks: too many links":
		// filepath.EvalSymlinks reports its own link budget with this text: the
		// same condition as ELOOP ("too many levels of symbolic links")
		return "ELOOP"
	case strings.Contains(s, "syntax error in pattern"):
		return "badpattern"
	}
	return "other:" + s
}

// ErrPaths renders the path fields an error embeds.
func ErrPaths(err error) string {
	switch e := err.(type) {
	case *fs.PathError:
		return e.Path
	case *os.LinkError:
		return e.Old + "|" + e.New
	}
	return ""
}
