package fsx

import (
	"fmt"

	"github.com/avfs/avfs"
)

// LexicalParity calls every method of the VFS interface that is a function of its arguments
// and of the configuration only (path helpers, accessors) on both file systems and returns
// the first disagreement ("" when there is none). Wrappers (RoFS, FailFS without a failure
// function, BasePathFS against a standalone file system) must answer as what they stand for.
// A panic of either side is reported as a disagreement.
func LexicalParity(a, b avfs.VFS, strs []string) (diff string) {
	defer func() {
		if p := recover(); p != nil {
			diff = fmt.Sprintf("panic: %v", p)
		}
	}()
	cmp := func(name string, x, y any) bool {
		if fmt.Sprint(x) != fmt.Sprint(y) {
			diff = fmt.Sprintf("%s: %v, the other side %v", name, x, y)
			return false
		}
		return true
	}
	for _, p := range strs {
		x1, e1 := a.Abs(p)
		y1, f1 := b.Abs(p)
		d1, n1 := a.Split(p)
		d2, n2 := b.Split(p)
		if !cmp(fmt.Sprintf("Abs(%q)", p), fmt.Sprint(x1, e1), fmt.Sprint(y1, f1)) ||
			!cmp(fmt.Sprintf("Base(%q)", p), a.Base(p), b.Base(p)) ||
			!cmp(fmt.Sprintf("Clean(%q)", p), a.Clean(p), b.Clean(p)) ||
			!cmp(fmt.Sprintf("Dir(%q)", p), a.Dir(p), b.Dir(p)) ||
			!cmp(fmt.Sprintf("FromSlash(%q)", p), a.FromSlash(p), b.FromSlash(p)) ||
			!cmp(fmt.Sprintf("ToSlash(%q)", p), a.ToSlash(p), b.ToSlash(p)) ||
			!cmp(fmt.Sprintf("IsAbs(%q)", p), a.IsAbs(p), b.IsAbs(p)) ||
			!cmp(fmt.Sprintf("Split(%q)", p), d1+"|"+n1, d2+"|"+n2) {
			return diff
		}
		for _, q := range strs {
			r1, e1 := a.Rel(p, q)
			r2, e2 := b.Rel(p, q)
			m1, g1 := a.Match(p, q)
			m2, g2 := b.Match(p, q)
			if !cmp(fmt.Sprintf("Join(%q,%q)", p, q), a.Join(p, q), b.Join(p, q)) ||
				!cmp(fmt.Sprintf("Rel(%q,%q)", p, q), fmt.Sprint(r1, e1 == nil), fmt.Sprint(r2, e2 == nil)) ||
				!cmp(fmt.Sprintf("Match(%q,%q)", p, q), fmt.Sprint(m1, g1 == nil), fmt.Sprint(m2, g2 == nil)) {
				return diff
			}
		}
	}
	for _, ch := range []uint8{'/', '\\', ':', 'a', 0} {
		if !cmp(fmt.Sprintf("IsPathSeparator(%d)", ch), a.IsPathSeparator(ch), b.IsPathSeparator(ch)) {
			return diff
		}
	}
	if !cmp("PathSeparator", a.PathSeparator(), b.PathSeparator()) || !cmp("OSType", a.OSType(), b.OSType()) ||
		!cmp("TempDir", a.TempDir(), b.TempDir()) || !cmp("UMask", a.UMask(), b.UMask()) {
		return diff
	}
	ua, ub := a.User(), b.User()
	if (ua == nil) != (ub == nil) || ua != nil && (ua.Name() != ub.Name() || ua.Uid() != ub.Uid() || ua.Gid() != ub.Gid()) {
		return fmt.Sprintf("User: %v, the other side %v", ua, ub)
	}
	return ""
}
