package fsx

import (
	"fmt"
	"io"
	"io/fs"
	"os"
	"reflect"
	"sort"
	"strings"
	"time"

	"github.com/avfs/avfs"
)

// Op is one generated call, as plain data (replayable without a generator).
type Op struct {
	K      string `json:"k"`
	P      string `json:"p,omitempty"`
	P2     string `json:"p2,omitempty"`
	Flag   int    `json:"flag,omitempty"`
	Perm   uint32 `json:"perm,omitempty"` // fs.FileMode bits
	Size   int64  `json:"size,omitempty"`
	Data   string `json:"data,omitempty"`
	Uid    int    `json:"uid,omitempty"`
	Gid    int    `json:"gid,omitempty"`
	H      int    `json:"h,omitempty"`
	Off    int64  `json:"off,omitempty"`
	Whence int    `json:"whence,omitempty"`
	N      int    `json:"n,omitempty"`
	MT     int64  `json:"mt,omitempty"`  // mtime, unix seconds
	Act    int    `json:"act,omitempty"` // WalkDir: action at visit K: 0 none 1 SkipDir 2 SkipAll 3 error
	At     int    `json:"at,omitempty"`  // WalkDir: visit index for Act
}

func (o Op) String() string {
	var sb strings.Builder
	sb.WriteString(o.K)
	sb.WriteByte('(')
	parts := []string{}
	if o.P != "" || isPathOp(o.K) {
		parts = append(parts, fmt.Sprintf("%q", o.P))
	}
	if o.P2 != "" || o.K == "Rename" || o.K == "Link" || o.K == "Symlink" {
		parts = append(parts, fmt.Sprintf("%q", o.P2))
	}
	if o.K == "Open" {
		parts = append(parts, FlagString(o.Flag), fmt.Sprintf("%#o", o.Perm), fmt.Sprintf("h%d", o.H))
	} else if strings.HasPrefix(o.K, "F") || o.K == "Create" || o.K == "CreateTemp" {
		parts = append(parts, fmt.Sprintf("h%d", o.H))
	}
	switch o.K {
	case "Mkdir", "MkdirAll", "Chmod", "FChmod", "WriteFile":
		parts = append(parts, fmt.Sprintf("%#o", o.Perm))
	case "Truncate", "FTruncate":
		parts = append(parts, fmt.Sprint(o.Size))
	case "Chown", "Lchown", "FChown":
		parts = append(parts, fmt.Sprint(o.Uid), fmt.Sprint(o.Gid))
	case "FRead", "FReadDir", "FReaddirnames":
		parts = append(parts, fmt.Sprint(o.N))
	case "FReadAt":
		parts = append(parts, fmt.Sprint(o.N), fmt.Sprint(o.Off))
	case "FWriteAt":
		parts = append(parts, fmt.Sprint(o.Off))
	case "FSeek":
		parts = append(parts, fmt.Sprint(o.Off), fmt.Sprint(o.Whence))
	case "Chtimes":
		parts = append(parts, fmt.Sprint(o.MT))
	case "WalkDir":
		parts = append(parts, fmt.Sprintf("act%d@%d", o.Act, o.At))
	}
	if o.Data != "" {
		if len(o.Data) > 24 {
			parts = append(parts, fmt.Sprintf("<%d bytes>", len(o.Data)))
		} else {
			parts = append(parts, fmt.Sprintf("%q", o.Data))
		}
	}
	sb.WriteString(strings.Join(parts, ", "))
	sb.WriteByte(')')
	return sb.String()
}

func isPathOp(k string) bool { return !strings.HasPrefix(k, "F") && k != "Getwd" }

// FlagString renders open flags.
func FlagString(f int) string {
	s := []string{"RDONLY", "WRONLY", "RDWR", "?3"}[f&3]
	if f&os.O_APPEND != 0 {
		s += "|APPEND"
	}
	if f&os.O_CREATE != 0 {
		s += "|CREATE"
	}
	if f&os.O_EXCL != 0 {
		s += "|EXCL"
	}
	if f&os.O_TRUNC != 0 {
		s += "|TRUNC"
	}
	return s
}

// Out is the normalised result of a call.
type Out struct {
	Err  string `json:"err"`
	Val  string `json:"val,omitempty"`
	Note string `json:"note,omitempty"` // not compared
	// EPath holds the path fields embedded in the returned error
	// (PathError.Path, LinkError.Old|New), compared only where a property says so.
	EPath string `json:"epath,omitempty"`
}

func (o Out) String() string {
	s := o.Err
	if o.Val != "" {
		s += " " + o.Val
	}
	if o.Note != "" {
		s += " (" + o.Note + ")"
	}
	return s
}

// Runner executes ops against one file system and keeps its handle table.
type Runner struct {
	FS      FS
	Handles map[int]avfs.File
	// TempNames maps canonical names to the random names CreateTemp/MkdirTemp
	// produced on this side (normalised away, DESIGN.md 2).
	lastTemp string
	NoOwner  bool // owners are not rendered in FileInfo values
	// OwnerZero: the id this file system gives its administrator when it is not 0 (OrefaFS has no identity
	// manager: math.MaxInt); rendered as 0, which is what the kernel gives root
	OwnerZero int
	// partial marks handles on which a partial directory read (n > 0) was
	// issued: which entries remain depends on the unspecified directory order,
	// so later reads on that handle are compared by count only.
	partial map[int]bool
	Guard   time.Duration // see DefaultGuard
	Dead    bool
	nOpen   int
	nCreate int
}

// MarkPartial records that a partial directory read was issued on slot h although this
// runner did not execute it (lock-step twins where one side refused the call).
func (r *Runner) MarkPartial(h int) { r.markPartial(h, true) }

// ClearPartial forgets the mark (the slot got a new handle, or none, without this runner executing the open).
func (r *Runner) ClearPartial(h int) { delete(r.partial, h) }

func (r *Runner) markPartial(h int, yes bool) {
	if !yes {
		return
	}
	if r.partial == nil {
		r.partial = map[int]bool{}
	}
	r.partial[h] = true
}

// LastTemp is the name the last successful temp call produced on this side.
func (r *Runner) LastTemp() string { return r.lastTemp }

// NewRunner returns a runner for fsys.
func NewRunner(fsys FS) *Runner {
	r := &Runner{FS: fsys, Handles: map[int]avfs.File{}, Guard: DefaultGuard}
	if _, ok := fsys.(OSFS); ok {
		r.Guard = 0
	}
	return r
}

// CloseAll closes every handle still open (end of a case).
func (r *Runner) CloseAll() {
	if r.Dead {
		return
	}
	for k, h := range r.Handles {
		func() {
			defer func() { _ = recover() }()
			if h != nil {
				_ = h.Close()
			}
		}()
		delete(r.Handles, k)
	}
}

// PermBits renders the permission bits incl. setuid/setgid/sticky as one number.
func PermBits(m fs.FileMode) uint32 {
	p := uint32(m.Perm())
	if m&fs.ModeSetuid != 0 {
		p |= 0o4000
	}
	if m&fs.ModeSetgid != 0 {
		p |= 0o2000
	}
	if m&fs.ModeSticky != 0 {
		p |= 0o1000
	}
	return p
}

// ModeFromBits is the inverse of PermBits.
func ModeFromBits(p uint32) fs.FileMode {
	m := fs.FileMode(p & 0o777)
	if p&0o4000 != 0 {
		m |= fs.ModeSetuid
	}
	if p&0o2000 != 0 {
		m |= fs.ModeSetgid
	}
	if p&0o1000 != 0 {
		m |= fs.ModeSticky
	}
	return m
}

// TypeLetter abstracts the file type.
// EntryType renders DirEntry.Type(): by contract only the type bits of the mode
// (Mode().Type()); anything else in it is shown.
func EntryType(m fs.FileMode) string {
	if extra := m &^ fs.ModeType; extra != 0 {
		return TypeLetter(m) + fmt.Sprintf("!+%o", uint32(extra))
	}
	return TypeLetter(m)
}

func TypeLetter(m fs.FileMode) string {
	switch {
	case m.IsDir():
		return "d"
	case m&fs.ModeSymlink != 0:
		return "l"
	case m.IsRegular():
		return "f"
	}
	return "o"
}

// InfoString renders what is compared of a FileInfo: name, type, permission
// bits, owner, size of regular files and symlinks, link count of regular files.
func InfoString(fsys FS, fi fs.FileInfo, noOwner bool, ownerZero ...int) (s string) {
	if fi == nil {
		return "<nil>"
	}
	defer func() {
		if p := recover(); p != nil {
			s = fmt.Sprintf("<info panic %v>", p)
		}
	}()
	t := TypeLetter(fi.Mode())
	st := fsys.ToSysStat(fi)
	uid, gid := st.Uid(), st.Gid()
	if noOwner {
		uid, gid = 0, 0
	}
	if len(ownerZero) > 0 {
		uid, gid = NormID(uid, ownerZero[0]), NormID(gid, ownerZero[0])
	}
	s = fmt.Sprintf("%s %s %04o %d:%d", fi.Name(), t, PermBits(fi.Mode()), uid, gid)
	if t == "f" || t == "l" {
		s += fmt.Sprintf(" size=%d", fi.Size())
	}
	if t == "f" {
		s += fmt.Sprintf(" nlink=%d", st.Nlink())
	}
	return s
}

func entriesString(ents []fs.DirEntry) string {
	var parts []string
	for _, e := range ents {
		parts = append(parts, e.Name()+":"+EntryType(e.Type()))
	}
	return "[" + strings.Join(parts, " ") + "]"
}

// ErrSentinel is returned by a WalkDir callback with Act == 3.
var ErrSentinel = fmt.Errorf("verif sentinel")

// DefaultGuard bounds one call on an emulated file system: a call on a tree of a
// few dozen nodes takes microseconds, only a self-deadlock or an endless loop
// reaches the bound - or a starved process, which is why reaching the bound alone
// decides nothing (guard.go). The outcome "HANG" means the call is parked in a lock
// nothing can release, or still running after many bounds; the runner is then dead (the
// stuck goroutine may hold locks): every later op answers HANG at once.
// Deadlocks are decided exactly by C07; here the bound only keeps a check
// from wedging. A zero Guard disables it (kernel side: the op must stay on the
// oracle thread).
var DefaultGuard = func() time.Duration {
	if v := os.Getenv("VERIF_HANG_MS"); v != "" {
		var n int
		if _, err := fmt.Sscan(v, &n); err == nil && n > 0 {
			return time.Duration(n) * time.Millisecond
		}
	}
	return 30 * time.Second
}()

// Do executes one op under the runner's guard.
func (r *Runner) Do(o Op) Out {
	if r.Guard <= 0 {
		return r.do(o)
	}
	if r.Dead {
		return Out{Err: "HANG"}
	}
	out, ok, note := guardedCall(r.Guard, func() Out { return r.do(o) })
	if !ok {
		r.Dead = true
		return Out{Err: "HANG", Note: note}
	}
	return out
}

// do executes one op; a panic of the code under test becomes Err "PANIC".
func (r *Runner) do(o Op) (out Out) {
	defer func() {
		if p := recover(); p != nil {
			// the panic text is kept for the report but is not part of the comparison
			out = Out{Err: "PANIC", Note: fmt.Sprint(p)}
		}
	}()
	f := r.FS
	perm := ModeFromBits(o.Perm)
	h := r.Handles[o.H]
	e := func(err error) Out { return Out{Err: ErrKind(err), EPath: ErrPaths(err)} }
	ev := func(err error, v string) Out {
		k := ErrKind(err)
		if k != "ok" && k != "EOF" {
			// values that accompany an error are not part of the comparison
			// unless they are a byte count (handled by the callers below)
			return Out{Err: k, EPath: ErrPaths(err)}
		}
		return Out{Err: k, Val: v}
	}
	switch o.K {
	case "Mkdir":
		return e(f.Mkdir(o.P, perm))
	case "MkdirAll":
		return e(f.MkdirAll(o.P, perm))
	case "Open":
		// VFS.Open(name) is OpenFile(name, O_RDONLY, 0) by contract: a read-only open goes through
		// either method in turn (the turn depends only on the history, so both sides of a comparison
		// take the same one), and so does Create below.
		r.nOpen++
		var fh avfs.File
		var err error
		if op, ok := f.(interface {
			Open(name string) (avfs.File, error)
		}); ok && o.Flag == os.O_RDONLY && r.nOpen%2 == 1 {
			fh, err = op.Open(o.P)
		} else {
			fh, err = f.OpenFile(o.P, o.Flag, perm)
		}
		r.Handles[o.H] = fh
		delete(r.partial, o.H)
		return e(err)
	case "Create":
		r.nCreate++
		var fh avfs.File
		var err error
		if cr, ok := f.(interface {
			Create(name string) (avfs.File, error)
		}); ok && r.nCreate%2 == 1 {
			fh, err = cr.Create(o.P)
		} else {
			fh, err = f.OpenFile(o.P, os.O_RDWR|os.O_CREATE|os.O_TRUNC, 0o666)
		}
		r.Handles[o.H] = fh
		return e(err)
	case "WriteFile":
		return e(f.WriteFile(o.P, []byte(o.Data), perm))
	case "ReadFile":
		b, err := f.ReadFile(o.P)
		return ev(err, fmt.Sprintf("%q", b))
	case "SetUMask":
		// (not part of the kernel-differential interface)
		if u, ok := f.(interface{ SetUMask(mask fs.FileMode) error }); ok {
			return e(u.SetUMask(perm))
		}
		return Out{Err: "unsupported"}
	case "UMask":
		if u, ok := f.(interface{ UMask() fs.FileMode }); ok {
			return Out{Err: "ok", Val: fmt.Sprintf("%04o", u.UMask())}
		}
		return Out{Err: "unsupported"}
	case "CreateTemp":
		fh, err := f.CreateTemp(o.P, o.P2)
		r.Handles[o.H] = fh
		if err != nil {
			return e(err)
		}
		name := fh.Name()
		r.lastTemp = name
		return Out{Err: "ok", Val: tempShape(name, o.P, o.P2)}
	case "MkdirTemp":
		name, err := f.MkdirTemp(o.P, o.P2)
		if err != nil {
			return e(err)
		}
		r.lastTemp = name
		return Out{Err: "ok", Val: tempShape(name, o.P, o.P2)}
	case "RenameTemp":
		// harness step: give the last temp object the canonical name P so that
		// both trees stay comparable
		if r.lastTemp == "" {
			return Out{Err: "notemp"}
		}
		err := f.Rename(r.lastTemp, o.P)
		if err != nil {
			// keep the trees comparable: the temp object goes away on both sides
			_ = f.RemoveAll(r.lastTemp)
		}
		r.lastTemp = ""
		return e(err)
	case "Remove":
		return e(f.Remove(o.P))
	case "RemoveAll":
		return e(f.RemoveAll(o.P))
	case "Rename":
		return e(f.Rename(o.P, o.P2))
	case "Link":
		return e(f.Link(o.P, o.P2))
	case "Symlink":
		return e(f.Symlink(o.P, o.P2))
	case "Readlink":
		s, err := f.Readlink(o.P)
		return ev(err, s)
	case "Truncate":
		return e(f.Truncate(o.P, o.Size))
	case "Chmod":
		return e(f.Chmod(o.P, perm))
	case "Chown":
		return e(f.Chown(o.P, o.Uid, o.Gid))
	case "Lchown":
		return e(f.Lchown(o.P, o.Uid, o.Gid))
	case "Chtimes":
		// access and modification time differ, so that a file system that mixes them up shows
		t := time.Unix(o.MT, 0)
		return e(f.Chtimes(o.P, t.Add(36*time.Hour), t))
	case "Chdir":
		return e(f.Chdir(o.P))
	case "Getwd":
		s, err := f.Getwd()
		return ev(err, s)
	case "Stat":
		fi, err := f.Stat(o.P)
		if err != nil {
			return e(err)
		}
		return Out{Err: "ok", Val: InfoString(f, fi, r.NoOwner, r.OwnerZero)}
	case "Mtime":
		fi, err := f.Stat(o.P)
		if err != nil {
			return e(err)
		}
		// A time set by Chtimes is compared exactly; a time that came from the clock of the
		// file system (the preceding Chtimes was refused) is not a function of the history:
		// two instances, or the kernel and the emulation, may sit on either side of a second.
		if d := time.Since(fi.ModTime()); d > -time.Hour && d < time.Hour {
			return Out{Err: "ok", Val: "recent"}
		}
		return Out{Err: "ok", Val: fmt.Sprint(fi.ModTime().Unix())}
	case "Lstat":
		fi, err := f.Lstat(o.P)
		if err != nil {
			return e(err)
		}
		return Out{Err: "ok", Val: InfoString(f, fi, r.NoOwner, r.OwnerZero)}
	case "ReadDir":
		ents, err := f.ReadDir(o.P)
		return ev(err, entriesString(ents))
	case "EvalSymlinks":
		s, err := f.EvalSymlinks(o.P)
		return ev(err, s)
	case "Abs":
		// (not part of the kernel-differential interface: used between emulated file systems)
		if a, ok := f.(interface {
			Abs(path string) (string, error)
		}); ok {
			s, err := a.Abs(o.P)
			return ev(err, s)
		}
		return Out{Err: "unsupported"}
	case "Glob":
		m, err := f.Glob(o.P)
		if m == nil {
			return ev(err, "nil")
		}
		return ev(err, fmt.Sprintf("%q", m))
	case "WalkDir":
		var visits []string
		i := 0
		err := f.WalkDir(o.P, func(path string, d fs.DirEntry, err error) error {
			if len(visits) > 5000 {
				return fmt.Errorf("verif: endless walk")
			}
			v := path
			if d != nil {
				v += ":" + EntryType(d.Type())
			}
			if err != nil {
				v += ":" + ErrKind(err)
			}
			visits = append(visits, v)
			i++
			if o.Act != 0 && i-1 == o.At {
				switch o.Act {
				case 1:
					return fs.SkipDir
				case 2:
					return fs.SkipAll
				case 3:
					return ErrSentinel
				}
			}
			if err != nil && o.Act == 4 {
				return err
			}
			return nil
		})
		k := ErrKind(err)
		if err == ErrSentinel {
			k = "sentinel"
		}
		return Out{Err: k, Val: "[" + strings.Join(visits, " ") + "]"}

	// ---- handle operations
	case "FRead":
		b := make([]byte, o.N)
		n, err := h.Read(b)
		return Out{Err: ErrKind(err), EPath: ErrPaths(err), Val: fmt.Sprintf("%d %q", n, b[:max(n, 0)])}
	case "FReadAt":
		b := make([]byte, o.N)
		n, err := h.ReadAt(b, o.Off)
		return Out{Err: ErrKind(err), EPath: ErrPaths(err), Val: fmt.Sprintf("%d %q", n, b[:max(n, 0)])}
	case "FWrite":
		n, err := h.Write([]byte(o.Data))
		return Out{Err: ErrKind(err), EPath: ErrPaths(err), Val: fmt.Sprint(n)}
	case "FWriteString":
		n, err := h.WriteString(o.Data)
		return Out{Err: ErrKind(err), EPath: ErrPaths(err), Val: fmt.Sprint(n)}
	case "FWriteAt":
		n, err := h.WriteAt([]byte(o.Data), o.Off)
		return Out{Err: ErrKind(err), EPath: ErrPaths(err), Val: fmt.Sprint(n)}
	case "FSeek":
		n, err := h.Seek(o.Off, o.Whence)
		return ev(err, fmt.Sprint(n))
	case "FTruncate":
		return e(h.Truncate(o.Size))
	case "FStat":
		fi, err := h.Stat()
		if err != nil {
			return e(err)
		}
		return Out{Err: "ok", Val: InfoString(f, fi, r.NoOwner, r.OwnerZero)}
	case "FSync":
		return e(h.Sync())
	case "FChmod":
		return e(h.Chmod(perm))
	case "FChown":
		return e(h.Chown(o.Uid, o.Gid))
	case "FChdir":
		return e(h.Chdir())
	case "FClose":
		return e(h.Close())
	case "FName":
		if h == nil || reflect.ValueOf(h).IsNil() {
			// File.Name on a nil handle panics in package os too: the one sanctioned panic
			func() {
				defer func() {
					if recover() != nil {
						out = Out{Err: "PANIC", Val: "nil-handle"}
					}
				}()
				out = Out{Err: "ok", Val: h.Name()}
			}()
			return out
		}
		return Out{Err: "ok", Val: h.Name()}
	case "FReadDir":
		// directory order is unspecified in package os: for a partial read only
		// the batch size and the error are comparable (DESIGN.md C02)
		ents, err := h.ReadDir(o.N)
		if o.N > 0 || r.partial[o.H] {
			r.markPartial(o.H, o.N > 0)
			return Out{Err: ErrKind(err), EPath: ErrPaths(err), Val: fmt.Sprintf("len=%d", len(ents))}
		}
		sort.Slice(ents, func(i, j int) bool { return ents[i].Name() < ents[j].Name() })
		return Out{Err: ErrKind(err), EPath: ErrPaths(err), Val: entriesString(ents)}
	case "FReaddirnames":
		names, err := h.Readdirnames(o.N)
		if o.N > 0 || r.partial[o.H] {
			r.markPartial(o.H, o.N > 0)
			return Out{Err: ErrKind(err), EPath: ErrPaths(err), Val: fmt.Sprintf("len=%d", len(names))}
		}
		sort.Strings(names)
		return Out{Err: ErrKind(err), EPath: ErrPaths(err), Val: fmt.Sprintf("%q", names)}
	case "FReadDirAll", "FReaddirnamesAll":
		// protocol check: batches of at most N until io.EOF, every entry exactly once
		seen := map[string]int{}
		var all []string
		for i := 0; ; i++ {
			var names []string
			var err error
			if o.K == "FReadDirAll" {
				var ents []fs.DirEntry
				ents, err = h.ReadDir(o.N)
				for _, e := range ents {
					names = append(names, e.Name()+":"+EntryType(e.Type()))
				}
			} else {
				names, err = h.Readdirnames(o.N)
			}
			if len(names) > o.N {
				return Out{Err: "protocol", Val: fmt.Sprintf("batch of %d > n=%d", len(names), o.N)}
			}
			for _, n := range names {
				seen[n]++
				if seen[n] > 1 {
					return Out{Err: "protocol", Val: "entry delivered twice: " + n}
				}
				all = append(all, n)
			}
			if err != nil {
				if err == io.EOF && len(names) == 0 {
					break
				}
				return Out{Err: ErrKind(err), EPath: ErrPaths(err), Val: fmt.Sprintf("after %d entries", len(all))}
			}
			if len(names) == 0 {
				return Out{Err: "protocol", Val: "empty batch without error"}
			}
			if i > 1000 {
				return Out{Err: "protocol", Val: "no EOF"}
			}
		}
		sort.Strings(all)
		if r.partial[o.H] {
			return Out{Err: "EOF", Val: fmt.Sprintf("len=%d", len(all))}
		}
		return Out{Err: "EOF", Val: fmt.Sprintf("%q", all)}
	case "FReadAll":
		b, err := io.ReadAll(h)
		return ev(err, fmt.Sprintf("%q", b))
	}
	return Out{Err: "harness:unknown-op:" + o.K}
}

// tempShape validates the name a temp call returned against its arguments and
// renders only what is comparable across the two sides.
func tempShape(name, dir, pattern string) string {
	if dir == "" {
		dir = "/tmp"
	}
	prefix, suffix := pattern, ""
	if i := strings.LastIndexByte(pattern, '*'); i >= 0 {
		prefix, suffix = pattern[:i], pattern[i+1:]
	}
	d := strings.TrimSuffix(dir, "/")
	ok := strings.HasPrefix(name, d+"/"+prefix) && strings.HasSuffix(name, suffix) &&
		len(name) > len(d)+1+len(prefix)+len(suffix) && !strings.Contains(name[len(d)+1:], "/")
	return fmt.Sprintf("shape-ok=%v", ok)
}

// NormID renders the administrator's id of a file system without identity manager as 0.
func NormID(id, zero int) int {
	if zero != 0 && id == zero {
		return 0
	}
	return id
}
