package fsx

import (
	"crypto/sha256"
	"encoding/hex"
	"fmt"
	"io/fs"
	"sort"
	"strings"
)

// Rec is what a snapshot records about one path.
type Rec struct {
	Path    string `json:"path"`
	Type    string `json:"type"`
	Perm    uint32 `json:"perm"`
	Uid     int    `json:"uid"`
	Gid     int    `json:"gid"`
	Size    int64  `json:"size"`              // regular files and symlinks
	Nlink   uint64 `json:"nlink"`             // regular files
	Content string `json:"content,omitempty"` // regular files: sha256 prefix + first bytes
	Target  string `json:"target,omitempty"`  // symlinks
	Ident   int    `json:"ident"`             // identity class among regular files (index of first path of the class)
	Mtime   int64  `json:"mtime,omitempty"`   // only in full snapshots
	Err     string `json:"err,omitempty"`     // a problem met while reading this path
	info    fs.FileInfo
}

func (r Rec) String() string {
	s := fmt.Sprintf("%s %s %04o %d:%d", r.Path, r.Type, r.Perm, r.Uid, r.Gid)
	switch r.Type {
	case "f":
		s += fmt.Sprintf(" size=%d nlink=%d id=%d %s", r.Size, r.Nlink, r.Ident, r.Content)
	case "l":
		s += fmt.Sprintf(" size=%d -> %s", r.Size, r.Target)
	}
	if r.Mtime != 0 {
		s += fmt.Sprintf(" mtime=%d", r.Mtime)
	}
	if r.Err != "" {
		s += " ERR=" + r.Err
	}
	return s
}

// Snap is a sorted list of records.
type Snap []Rec

// SnapOpts selects snapshot variants.
type SnapOpts struct {
	Roots     []string // walk from each of these (default "/")
	Full      bool     // also record mtimes (emulated file systems only)
	MaxNodes  int
	NoOwner   bool // do not record owners (file systems without identity manager)
	OwnerZero int  // see Runner.OwnerZero
	NoGuard   bool // walk on the calling goroutine, unbounded
}

// Snapshot walks the tree with ReadDir + Lstat (+ ReadFile, Readlink) through
// the API only. A walk that exceeds the node bound is reported in the last
// record's Err (C05: the walk must terminate).
//
// On an emulated file system the walk is bounded like a call (DefaultGuard): a lock
// left held by a call that never returned would otherwise block the walk, and the
// check, for ever. The walk that does not come back is the one record {"/", HANG}.
func Snapshot(fsys FS, o SnapOpts) Snap {
	if _, kernel := fsys.(OSFS); kernel || o.NoGuard || DefaultGuard <= 0 {
		return snapshot(fsys, o)
	}
	s, ok, _ := guardedCall(DefaultGuard, func() Snap { return snapshot(fsys, o) })
	if !ok {
		return Snap{{Path: "/", Err: "HANG"}}
	}
	return s
}

func snapshot(fsys FS, o SnapOpts) (snap Snap) {
	if len(o.Roots) == 0 {
		o.Roots = []string{"/"}
	}
	if o.MaxNodes == 0 {
		o.MaxNodes = 3000
	}
	count := 0
	var walk func(p string, depth int)
	walk = func(p string, depth int) {
		count++
		if count > o.MaxNodes || depth > 60 {
			snap = append(snap, Rec{Path: p, Err: "walk-bound-exceeded"})
			return
		}
		fi, err := fsys.Lstat(p)
		if err != nil {
			snap = append(snap, Rec{Path: p, Err: "lstat:" + ErrKind(err)})
			return
		}
		r := Rec{Path: p, info: fi}
		func() {
			defer func() {
				if x := recover(); x != nil {
					r.Err = fmt.Sprintf("panic:%v", x)
				}
			}()
			st := fsys.ToSysStat(fi)
			r.Type = TypeLetter(fi.Mode())
			r.Perm = PermBits(fi.Mode())
			if !o.NoOwner {
				r.Uid, r.Gid = NormID(st.Uid(), o.OwnerZero), NormID(st.Gid(), o.OwnerZero)
			}
			if o.Full {
				r.Mtime = fi.ModTime().UnixNano()
			}
			switch r.Type {
			case "f":
				r.Size = fi.Size()
				r.Nlink = st.Nlink()
				b, err := fsys.ReadFile(p)
				if err != nil {
					r.Err = "readfile:" + ErrKind(err)
				} else {
					sum := sha256.Sum256(b)
					head := b
					if len(head) > 12 {
						head = head[:12]
					}
					r.Content = fmt.Sprintf("%s:%d:%q", hex.EncodeToString(sum[:4]), len(b), head)
				}
			case "l":
				r.Size = fi.Size()
				t, err := fsys.Readlink(p)
				if err != nil {
					r.Err = "readlink:" + ErrKind(err)
				}
				r.Target = t
			}
		}()
		idx := len(snap)
		snap = append(snap, r)
		if r.Type != "d" {
			return
		}
		ents, err := fsys.ReadDir(p)
		if err != nil {
			snap[idx].Err = "readdir:" + ErrKind(err)
			return
		}
		prev := ""
		for i, e := range ents {
			if i > 0 && e.Name() <= prev {
				snap[idx].Err = fmt.Sprintf("readdir-unsorted-or-duplicate:%q<=%q", e.Name(), prev)
			}
			prev = e.Name()
			child := p + "/" + e.Name()
			if p == "/" {
				child = "/" + e.Name()
			}
			walk(child, depth+1)
			if count > o.MaxNodes {
				return
			}
		}
	}
	for _, r := range o.Roots {
		walk(r, 0)
	}
	sort.SliceStable(snap, func(i, j int) bool { return snap[i].Path < snap[j].Path })
	// identity classes of regular files under SameFile
	for i := range snap {
		snap[i].Ident = -1
	}
	for i := range snap {
		if snap[i].Type != "f" || snap[i].Ident >= 0 || snap[i].info == nil {
			continue
		}
		snap[i].Ident = i
		for j := i + 1; j < len(snap); j++ {
			if snap[j].Type == "f" && snap[j].Ident < 0 && snap[j].info != nil && fsys.SameFile(snap[i].info, snap[j].info) {
				snap[j].Ident = i
			}
		}
	}
	for i := range snap {
		if snap[i].Ident < 0 {
			snap[i].Ident = 0
		}
	}
	return snap
}

// Diff returns the first difference between two snapshots as
// (path, field, left, right), or ok == true.
func Diff(a, b Snap) (path, field, left, right string, same bool) {
	i, j := 0, 0
	for i < len(a) || j < len(b) {
		switch {
		case j >= len(b) || (i < len(a) && a[i].Path < b[j].Path):
			return a[i].Path, "extra-left", a[i].String(), "", false
		case i >= len(a) || a[i].Path > b[j].Path:
			return b[j].Path, "extra-right", "", b[j].String(), false
		}
		x, y := a[i], b[j]
		ck := func(f string, l, r any) bool {
			if fmt.Sprint(l) != fmt.Sprint(r) {
				path, field, left, right = x.Path, f, fmt.Sprint(l), fmt.Sprint(r)
				return false
			}
			return true
		}
		if !(ck("err", x.Err, y.Err) && ck("type", x.Type, y.Type) && ck("perm", fmt.Sprintf("%04o", x.Perm), fmt.Sprintf("%04o", y.Perm)) &&
			ck("uid", x.Uid, y.Uid) && ck("gid", x.Gid, y.Gid) && ck("size", x.Size, y.Size) && ck("nlink", x.Nlink, y.Nlink) &&
			ck("content", x.Content, y.Content) && ck("target", x.Target, y.Target) && ck("ident", x.Ident, y.Ident) && ck("mtime", x.Mtime, y.Mtime)) {
			return path, field, left, right, false
		}
		i++
		j++
	}
	return "", "", "", "", true
}

// Lookup finds the record of a path.
func (s Snap) Lookup(p string) *Rec {
	i := sort.Search(len(s), func(i int) bool { return s[i].Path >= p })
	if i < len(s) && s[i].Path == p && s[i].Type != "" {
		return &s[i]
	}
	return nil // also for the placeholder record of a snapshot root that does not exist
}

// String renders the snapshot, one record per line.
func (s Snap) String() string {
	var sb strings.Builder
	for _, r := range s {
		sb.WriteString(r.String())
		sb.WriteByte('\n')
	}
	return sb.String()
}
