package fsx

import (
	"io/fs"
	"path"
	"strings"

	"github.com/avfs/avfs"
)

// resolve walks p (absolute, clean) over the snapshot, following symbolic
// links in intermediate positions (and in the last position when follow is
// set). It returns the final record (nil when missing), the physical path
// reached, how the walk ended and whether a symlink was crossed on the way.
func resolve(s Snap, p string, follow bool) (rec *Rec, phys string, end string, viaLink bool) {
	budget := 45
	cur := "/"
	rest := strings.Split(strings.Trim(p, "/"), "/")
	if p == "/" {
		rest = nil
	}
	for len(rest) > 0 {
		name := rest[0]
		rest = rest[1:]
		if name == "" || name == "." {
			continue
		}
		if name == ".." {
			cur = path.Dir(cur)
			continue
		}
		next := path.Join(cur, name)
		r := s.Lookup(next)
		if r == nil {
			if len(rest) == 0 {
				return nil, next, "leaf", viaLink
			}
			return nil, next, "deep", viaLink
		}
		switch r.Type {
		case "d":
			cur = next
		case "l":
			if len(rest) == 0 && !follow {
				return r, next, "found", viaLink
			}
			budget--
			if budget < 0 {
				return nil, next, "loop", viaLink
			}
			if len(rest) > 0 {
				viaLink = true
			}
			t := strings.Split(strings.Trim(r.Target, "/"), "/")
			if strings.HasPrefix(r.Target, "/") {
				cur = "/"
			}
			rest = append(append([]string{}, t...), rest...)
		default:
			if len(rest) == 0 {
				return r, next, "found", viaLink
			}
			return nil, next, "under-file", viaLink
		}
	}
	return s.Lookup(cur), cur, "found", viaLink
}

func absOf(cwd, p string) string {
	if strings.HasPrefix(p, "/") {
		return path.Clean(p)
	}
	return path.Join(cwd, p)
}

// Classify abstracts a path operand into its situation class on the snapshot
// (taken on the reference side before the call). DESIGN.md 3.5.
func Classify(s Snap, cwd, p string) string {
	if p == "" {
		return "empty"
	}
	abs := absOf(cwd, p)
	var cl string
	rec, _, end, via := resolve(s, abs, false)
	switch {
	case abs == "/":
		cl = "root"
	case end == "leaf":
		cl = "missing-leaf"
	case end == "deep":
		cl = "missing-deep"
	case end == "under-file":
		cl = "under-file"
	case end == "loop":
		cl = "via-loop"
	case rec == nil:
		cl = "missing-leaf"
	case rec.Type == "d":
		cl = "dir0"
		pre := rec.Path + "/"
		if rec.Path == "/" {
			pre = "/"
		}
		for _, r := range s {
			if strings.HasPrefix(r.Path, pre) && r.Path != rec.Path {
				cl = "dir+"
				break
			}
		}
	case rec.Type == "f":
		cl = "file1"
		if rec.Nlink > 1 {
			cl = "fileN"
		}
	case rec.Type == "l":
		t, _, tend, _ := resolve(s, abs, true)
		switch {
		case tend == "loop":
			cl = "lnk>loop"
		case t == nil:
			cl = "lnk>dangling"
		case t.Type == "d":
			cl = "lnk>dir"
		default:
			cl = "lnk>file"
		}
	default:
		cl = "other"
	}
	if !strings.HasPrefix(p, "/") {
		cl += ",rel"
	}
	if b := path.Base(p); p == "." || p == ".." || strings.HasSuffix(p, "/.") || strings.HasSuffix(p, "/..") || b == "." || b == ".." {
		// the kernel special-cases "." and ".." as last element (rmdir, rename)
		cl += ",dot"
	}
	if via {
		cl += ",via-lnk"
	}
	if abs == cwd && abs != "/" {
		cl += ",is-cwd"
	} else if cwd != "/" && strings.HasPrefix(cwd, abs+"/") {
		cl += ",contains-cwd"
	}
	return cl
}

// Relation abstracts how two path operands relate.
func Relation(s Snap, cwd, a, b string) string {
	if a == "" || b == "" {
		return "n/a"
	}
	pa, pb := absOf(cwd, a), absOf(cwd, b)
	ra, fa, _, _ := resolve(s, pa, false)
	rb, fb, _, _ := resolve(s, pb, false)
	switch {
	case fa == fb:
		return "same-path"
	case ra != nil && rb != nil && ra.Type == "f" && rb.Type == "f" && ra.Ident == rb.Ident:
		return "same-file"
	case strings.HasPrefix(fb, strings.TrimSuffix(fa, "/")+"/"):
		return "a-anc-b"
	case strings.HasPrefix(fa, strings.TrimSuffix(fb, "/")+"/"):
		return "b-anc-a"
	case path.Dir(fa) == path.Dir(fb):
		return "same-dir"
	}
	return "other"
}

// Physical returns the path p names after following symbolic links in
// intermediate positions (and in the last position when followLast is set),
// as far as the snapshot allows; missing tails are kept lexically.
func Physical(s Snap, cwd, p string, followLast bool) string {
	if p == "" {
		return cwd
	}
	_, phys, _, _ := resolve(s, absOf(cwd, p), followLast)
	return phys
}

// Retarget rewrites the absolute /-paths of an op for a Windows-typed file
// system (volume C:, backslash separators); relative paths get backslashes.
func Retarget(o Op, windows bool) Op {
	if !windows {
		return o
	}
	conv := func(p string) string {
		if strings.HasPrefix(p, "/") && !strings.HasPrefix(p, "//") {
			return `C:` + strings.ReplaceAll(p, "/", `\`)
		}
		return strings.ReplaceAll(p, "/", `\`)
	}
	o.P = conv(o.P)
	if o.K == "Symlink" {
		o.P, o.P2 = strings.ReplaceAll(o.P, "/", `\`), conv(o.P2)
		if strings.HasPrefix(o.P, `C:`) {
			// keep absolute targets absolute
		}
	} else {
		o.P2 = conv(o.P2)
	}
	return o
}

// WinView lets Snapshot walk a Windows-typed file system (volume C:) with /-paths.
type WinView struct{ avfs.VFS }

func wconv(p string) string { return Retarget(Op{P: p}, true).P }

func (v WinView) Lstat(p string) (fs.FileInfo, error)     { return v.VFS.Lstat(wconv(p)) }
func (v WinView) Stat(p string) (fs.FileInfo, error)      { return v.VFS.Stat(wconv(p)) }
func (v WinView) ReadDir(p string) ([]fs.DirEntry, error) { return v.VFS.ReadDir(wconv(p)) }
func (v WinView) ReadFile(p string) ([]byte, error)       { return v.VFS.ReadFile(wconv(p)) }
func (v WinView) Readlink(p string) (string, error)       { return v.VFS.Readlink(wconv(p)) }
