package kernel

import "unsafe"

func unsafePointer(p *uint32) unsafe.Pointer { return unsafe.Pointer(p) }
