package kernel

import (
	"os"
	"testing"
)

func TestOracle(t *testing.T) {
	k, err := New("/dev/shm")
	if err != nil {
		t.Fatal(err)
	}
	defer k.Close()
	k.Umask(0o027)
	var wd string
	var mode os.FileMode
	k.Do(func() {
		os.Mkdir("/d", 0o777)
		os.Chdir("/d")
		wd, _ = os.Getwd()
		fi, _ := os.Stat("/d")
		mode = fi.Mode().Perm()
	})
	if wd != "/d" || mode != 0o750 {
		t.Fatalf("wd=%q mode=%o", wd, mode)
	}
	if _, err := os.Stat(k.Root + "/d"); err != nil {
		t.Fatal(err)
	}
	mywd, _ := os.Getwd()
	if mywd == "/d" {
		t.Fatal("cwd leaked")
	}
}
