// Package kernel provides the in-process Linux oracle: a goroutine locked to an
// OS thread that has a private root directory, working directory, umask and
// file-system identity (unshare(CLONE_FS) + chroot + setfsuid/setfsgid), on
// which closures using package os are executed.  DESIGN.md 3.3.
package kernel

import (
	"fmt"
	"os"
	"path/filepath"
	"runtime"
	"syscall"
)

// Thread is one oracle thread with its scratch root.
type Thread struct {
	Root string // scratch root as seen from the rest of the process
	reqs chan func()
	done chan struct{}
	err  error
}

func setfs(uid, gid int, groups []int) error {
	// order: groups and gid first while we still have the capability
	if groups != nil {
		g := make([]uint32, len(groups))
		for i, x := range groups {
			g[i] = uint32(x)
		}
		var p uintptr
		if len(g) > 0 {
			p = uintptr(unsafePointer(&g[0]))
		}
		if _, _, e := syscall.RawSyscall(syscall.SYS_SETGROUPS, uintptr(len(g)), p, 0); e != 0 {
			return fmt.Errorf("setgroups: %v", e)
		}
	}
	syscall.RawSyscall(syscall.SYS_SETFSGID, uintptr(gid), 0, 0)
	syscall.RawSyscall(syscall.SYS_SETFSUID, uintptr(uid), 0, 0)
	// setfsuid returns the previous value; read back
	cur, _, _ := syscall.RawSyscall(syscall.SYS_SETFSUID, ^uintptr(0), 0, 0)
	if int(int32(cur)) != uid {
		return fmt.Errorf("setfsuid(%d) not effective (is %d)", uid, int(int32(cur)))
	}
	curg, _, _ := syscall.RawSyscall(syscall.SYS_SETFSGID, ^uintptr(0), 0, 0)
	if int(int32(curg)) != gid {
		return fmt.Errorf("setfsgid(%d) not effective (is %d)", gid, int(int32(curg)))
	}
	return nil
}

// SetFS switches the file-system identity of the calling thread; it must be
// called from a closure running on an oracle thread.
func SetFS(uid, gid int, groups []int) error { return setfs(uid, gid, groups) }

// New starts an oracle thread whose root is a fresh directory below base
// (a tmpfs directory such as /dev/shm).  It proves its own preconditions.
func New(base string) (*Thread, error) {
	_ = os.Unsetenv("PWD") // os.Getwd must ask the kernel, not trust the environment
	// the process id is in the name so that the driver can remove what a killed shard leaves behind
	root, err := os.MkdirTemp(base, fmt.Sprintf("verif-k-%d-", os.Getpid()))
	if err != nil {
		return nil, err
	}
	if err := os.Chmod(root, 0o755); err != nil {
		return nil, err
	}
	k := &Thread{Root: root, reqs: make(chan func()), done: make(chan struct{})}
	ready := make(chan error, 1)
	go func() {
		runtime.LockOSThread() // never unlocked: the thread dies with the goroutine
		defer close(k.done)
		if err := syscall.Unshare(syscall.CLONE_FS); err != nil {
			ready <- fmt.Errorf("unshare(CLONE_FS): %v", err)
			return
		}
		if err := syscall.Chroot(root); err != nil {
			ready <- fmt.Errorf("chroot: %v", err)
			return
		}
		if err := syscall.Chdir("/"); err != nil {
			ready <- fmt.Errorf("chdir: %v", err)
			return
		}
		syscall.Umask(0o022)
		ready <- nil
		for f := range k.reqs {
			f()
		}
	}()
	if err := <-ready; err != nil {
		os.RemoveAll(root)
		return nil, err
	}
	if err := k.selfCheck(); err != nil {
		k.Close()
		return nil, err
	}
	return k, nil
}

// Do runs f on the oracle thread and waits for it.
func (k *Thread) Do(f func()) {
	ch := make(chan any, 1)
	k.reqs <- func() {
		defer func() { ch <- recover() }()
		f()
	}
	if p := <-ch; p != nil {
		panic(p)
	}
}

// SetIdentity switches the file-system identity of the oracle thread.
// groups == nil leaves the supplementary groups alone.
func (k *Thread) SetIdentity(uid, gid int, groups []int) (err error) {
	k.Do(func() { err = setfs(uid, gid, groups) })
	return err
}

// Umask sets the umask of the oracle thread.
func (k *Thread) Umask(m int) { k.Do(func() { syscall.Umask(m) }) }

// Reset removes everything below the scratch root (as root, from the oracle
// thread), recreates the given system directories and returns to "/".
func (k *Thread) Reset(dirs map[string]os.FileMode, order []string) error {
	var err error
	k.Do(func() {
		if e := setfs(0, 0, []int{}); e != nil {
			err = e
			return
		}
		syscall.Umask(0)
		_ = os.Chdir("/")
		ents, e := os.ReadDir("/")
		if e != nil {
			err = e
			return
		}
		for _, en := range ents {
			if e := removeAllForce("/" + en.Name()); e != nil {
				err = e
				return
			}
		}
		_ = os.Chmod("/", 0o755)
		_ = os.Chown("/", 0, 0)
		for _, d := range order {
			if e := os.Mkdir(d, dirs[d]&os.ModePerm); e != nil {
				err = e
				return
			}
			_ = os.Chmod(d, dirs[d])
		}
		syscall.Umask(0o022)
	})
	return err
}

func removeAllForce(p string) error {
	fi, err := os.Lstat(p)
	if err != nil {
		return nil
	}
	if fi.IsDir() {
		_ = os.Chmod(p, 0o700)
		ents, _ := os.ReadDir(p)
		for _, e := range ents {
			if err := removeAllForce(p + "/" + e.Name()); err != nil {
				return err
			}
		}
	}
	return os.Remove(p)
}

// Close stops the thread and removes the scratch root.
func (k *Thread) Close() {
	if k.reqs != nil {
		_ = k.Reset(nil, nil)
		close(k.reqs)
		<-k.done
		k.reqs = nil
	}
	_ = os.RemoveAll(k.Root)
}

// selfCheck proves that the root is private and that identity switches bite.
func (k *Thread) selfCheck() error {
	var e1, e2, e3 error
	var uidSeen uint32
	k.Do(func() {
		e1 = os.WriteFile("/.probe", []byte("x"), 0o644)
		_ = os.Mkdir("/.priv", 0o700)
		if err := setfs(1001, 1001, []int{}); err != nil {
			e2 = err
			return
		}
		_, e2 = os.ReadDir("/.priv")
		f, err := os.Create("/.probe2")
		if err == nil {
			f.Close()
		}
		_ = os.Chmod("/", 0o777)
		e3 = setfs(0, 0, []int{})
		_ = os.Chmod("/", 0o777)
		f, err = os.OpenFile("/.probe3", os.O_CREATE|os.O_WRONLY, 0o666)
		if err == nil {
			f.Close()
		}
		if err := setfs(1001, 1002, []int{}); err == nil {
			f, err = os.OpenFile("/.probe4", os.O_CREATE|os.O_WRONLY, 0o666)
			if err == nil {
				f.Close()
				var st syscall.Stat_t
				_ = syscall.Lstat("/.probe4", &st)
				uidSeen = st.Uid
			}
		}
		_ = setfs(0, 0, []int{})
		_ = os.Chmod("/", 0o755)
	})
	if e1 != nil {
		return fmt.Errorf("oracle cannot write in its root: %v", e1)
	}
	if _, err := os.Lstat(filepath.Join(k.Root, ".probe")); err != nil {
		return fmt.Errorf("oracle root is not the scratch directory: %v", err)
	}
	if _, err := os.Lstat("/.probe"); err == nil {
		return fmt.Errorf("oracle thread wrote into the real root: chroot not private")
	}
	if e2 == nil || !os.IsPermission(e2) {
		return fmt.Errorf("identity switch not effective: reading a 0700 root-owned dir as uid 1001 gave %v", e2)
	}
	if e3 != nil {
		return fmt.Errorf("cannot switch back to root: %v", e3)
	}
	if uidSeen != 1001 {
		return fmt.Errorf("file created as fsuid 1001 is owned by %d", uidSeen)
	}
	// main thread unaffected?
	if wd, err := os.Getwd(); err != nil || wd == "" {
		return fmt.Errorf("main thread cwd disturbed: %v", err)
	}
	return k.Reset(nil, nil)
}
