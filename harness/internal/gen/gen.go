// Package gen holds the operation generators shared by the file-system
// properties: a small universe of paths in which every situation class
// (DESIGN.md 3.5) is frequent, parameter domains, a rapid generator and the
// complete instance enumeration used by the bounded-exhaustive tiers.
package gen

import (
	"os"
	"strings"

	"pgregory.net/rapid"

	"verif/harness/internal/fsx"
)

// Config selects what is generated.
type Config struct {
	Symlinks bool // file system advertises symbolic links
	Root     bool // "/" may be an operand
	Base     string
	Kinds    []string // nil = all
	NoChown  bool
	NoTemp   bool
	NoChdir  bool
	// LinkCalls keeps Symlink, Readlink and EvalSymlinks among the calls although the file system has no
	// symbolic links (Symlinks false): what a wrapper answers for a call its base refuses
	LinkCalls bool
	NoTmp     bool // "/tmp" is not an operand (it does not exist under Windows emulation)
}

// Inst is one generated step: usually one op, for open a short open/write/close group.
type Inst []fsx.Op

var (
	Perms    = []uint32{0o755, 0o644, 0o600, 0o000, 0o777, 0o2755, 0o4755, 0o1777, 0o070}
	Datas    = []string{"", "x", "hello", "0123456789"}
	Sizes    = []int64{-1, 0, 1, 3, 100}
	Regrow   = []int64{2, 3, 5, 7, 9}
	Ids      = []int{-1, 0, 1001, 1002}
	Mtimes   = []int64{0, 1000000000, 2000000000}
	Patterns = []string{"", "t", "t*", "t*.x", "*", "a*b*c", "**", "s/t*"}
)

// AllKinds lists the call templates of C01.
var AllKinds = []string{"Mkdir", "MkdirAll", "Open", "Create", "WriteFile", "ReadFile", "CreateTemp", "MkdirTemp",
	"Remove", "RemoveAll", "Rename", "Link", "Symlink", "Readlink", "Truncate", "Chmod", "Chown", "Lchown", "Chtimes",
	"Chdir", "Getwd", "Stat", "Lstat", "ReadDir", "EvalSymlinks", "WalkDir", "OpenChdir"}

// Paths returns the absolute path universe below base (names a, b, c; depth 3)
// plus the special operands.
func (c Config) Paths() []string {
	b := c.Base
	p := []string{b + "/a", b + "/b", b + "/c", b + "/a/a", b + "/a/b", b + "/b/a", b + "/b/c", b + "/c/a", b + "/a/a/a", b + "/a/b/c", b}
	if !c.NoTmp {
		p = append(p, "/tmp")
	}
	if c.Root {
		p = append(p, "/")
	}
	return p
}

// RelPaths are the relative operands (meaningful after a Chdir).
func (c Config) RelPaths() []string {
	return []string{"a", "b", "c", "a/b", "a/a", ".", "..", "../b", "../a/b"}
}

// Targets are the symlink target texts (all lexically clean).
func (c Config) Targets() []string {
	b := c.Base
	return []string{"a", "b", "c", "a/b", "../b", "../a", b + "/a", b + "/b", b + "/c", b + "/a/b", ".", "..", "nonexist", b}
}

func (c Config) kinds() []string {
	ks := c.Kinds
	if ks == nil {
		ks = AllKinds
	}
	var r []string
	for _, k := range ks {
		switch {
		case !c.Symlinks && !c.LinkCalls && (k == "Symlink" || k == "Readlink" || k == "EvalSymlinks"):
		case c.NoChown && (k == "Chown" || k == "Lchown"):
		case c.NoTemp && (k == "CreateTemp" || k == "MkdirTemp"):
		case c.NoChdir && (k == "Chdir" || k == "OpenChdir"):
		default:
			r = append(r, k)
		}
	}
	return r
}

// OpenFlags enumerates access mode x {APPEND, CREATE, EXCL, TRUNC}.
func OpenFlags() []int {
	var r []int
	for _, acc := range []int{os.O_RDONLY, os.O_WRONLY, os.O_RDWR} {
		for m := 0; m < 16; m++ {
			f := acc
			if m&1 != 0 {
				f |= os.O_APPEND
			}
			if m&2 != 0 {
				f |= os.O_CREATE
			}
			if m&4 != 0 {
				f |= os.O_EXCL
			}
			if m&8 != 0 {
				f |= os.O_TRUNC
			}
			r = append(r, f)
		}
	}
	return r
}

func openGroup(p string, flag int, perm uint32, data string) Inst {
	return Inst{{K: "Open", P: p, Flag: flag, Perm: perm, H: 0}, {K: "FWrite", H: 0, Data: data}, {K: "FClose", H: 0}}
}

func tempGroup(kind, dir, pattern, canon string) Inst {
	i := Inst{{K: kind, P: dir, P2: pattern, H: 0}}
	// a pattern with a separator is refused and avfs then returns a nil interface (package os a nil
	// *os.File): there is no handle to use afterwards
	if kind == "CreateTemp" && !strings.Contains(pattern, "/") {
		i = append(i, fsx.Op{K: "FWrite", H: 0, Data: "tmp"}, fsx.Op{K: "FClose", H: 0})
	}
	return append(i, fsx.Op{K: "RenameTemp", P: canon})
}

// Draw draws one instance with rapid. Paths come from the universe, mostly
// absolute, sometimes relative.
func (c Config) Draw(t *rapid.T) Inst {
	kinds := c.kinds()
	k := rapid.SampledFrom(kinds).Draw(t, "kind")
	abs := c.Paths()
	rel := c.RelPaths()
	path := func(label string) string {
		if rapid.IntRange(0, 9).Draw(t, label+"-rel") == 0 {
			return rapid.SampledFrom(rel).Draw(t, label)
		}
		return rapid.SampledFrom(abs).Draw(t, label)
	}
	perm := func() uint32 { return rapid.SampledFrom(Perms).Draw(t, "perm") }
	switch k {
	case "Mkdir", "MkdirAll":
		return Inst{{K: k, P: path("p"), Perm: perm()}}
	case "Open":
		return openGroup(path("p"), rapid.SampledFrom(OpenFlags()).Draw(t, "flag"), perm(), rapid.SampledFrom(Datas).Draw(t, "data"))
	case "Create":
		return Inst{{K: "Create", P: path("p"), H: 0}, {K: "FWrite", H: 0, Data: rapid.SampledFrom(Datas).Draw(t, "data")}, {K: "FClose", H: 0}}
	case "WriteFile":
		return Inst{{K: k, P: path("p"), Perm: perm(), Data: rapid.SampledFrom(Datas).Draw(t, "data")}}
	case "CreateTemp", "MkdirTemp":
		dirs := append([]string{""}, abs...)
		return tempGroup(k, rapid.SampledFrom(dirs).Draw(t, "dir"), rapid.SampledFrom(Patterns).Draw(t, "pat"), path("canon"))
	case "Rename", "Link":
		return Inst{{K: k, P: path("p"), P2: path("p2")}}
	case "Symlink":
		return Inst{{K: k, P: rapid.SampledFrom(c.Targets()).Draw(t, "target"), P2: path("p2")}}
	case "Truncate":
		pp := path("p")
		in := Inst{{K: k, P: pp, Size: rapid.SampledFrom(Sizes).Draw(t, "size")}}
		if rapid.Bool().Draw(t, "again") {
			// shrink and grow again: what lies beyond the end must come back as zeros
			in = append(in, fsx.Op{K: k, P: pp, Size: rapid.SampledFrom(Regrow).Draw(t, "size2")}, fsx.Op{K: "ReadFile", P: pp})
		}
		return in
	case "Chmod":
		return Inst{{K: k, P: path("p"), Perm: perm()}}
	case "Chown", "Lchown":
		return Inst{{K: k, P: path("p"), Uid: rapid.SampledFrom(Ids).Draw(t, "uid"), Gid: rapid.SampledFrom(Ids).Draw(t, "gid")}}
	case "Chtimes":
		pp := path("p")
		return Inst{{K: k, P: pp, MT: rapid.SampledFrom(Mtimes).Draw(t, "mt")}, {K: "Mtime", P: pp}}
	case "Getwd":
		return Inst{{K: k}}
	case "Chdir":
		// where the working directory is afterwards is part of the outcome (a final symbolic
		// link is resolved: Getwd gives the physical path)
		return Inst{{K: k, P: path("p")}, {K: "Getwd"}, {K: "Stat", P: "."}}
	case "OpenChdir":
		// the working directory set through an open directory: wherever and however it was opened
		in := Inst{{K: "Open", P: path("p"), Flag: os.O_RDONLY, H: 0}}
		if rapid.Bool().Draw(t, "move-first") {
			// the handle outlives a change of directory: it still stands for the directory it was opened on
			in = append(in, fsx.Op{K: "Chdir", P: path("elsewhere")})
		}
		return append(in, fsx.Op{K: "FChdir", H: 0}, fsx.Op{K: "Getwd"}, fsx.Op{K: "Stat", P: "."}, fsx.Op{K: "FClose", H: 0})
	case "Glob":
		pat := rapid.SampledFrom([]string{"*", "a*", "?", "*/*", "[ab]", "a/*", "b"}).Draw(t, "pat")
		dir := rapid.SampledFrom(abs).Draw(t, "gdir")
		if dir == "/" {
			dir = ""
		}
		return Inst{{K: k, P: dir + "/" + pat}}
	case "WalkDir":
		return Inst{{K: k, P: path("p"), Act: rapid.IntRange(0, 3).Draw(t, "act"), At: rapid.IntRange(0, 6).Draw(t, "at")}}
	default: // one-path calls
		return Inst{{K: k, P: path("p")}}
	}
}

// All enumerates every instance over the universe (absolute paths only, plus
// a few relative ones when withRel), for the bounded-exhaustive tiers.
// reduced selects one representative parameter per class instead of all.
func (c Config) All(reduced, withRel bool) []Inst {
	var r []Inst
	paths := c.Paths()
	if withRel {
		paths = append(paths, c.RelPaths()...)
	}
	perms := Perms
	datas := Datas
	flags := OpenFlags()
	if reduced {
		perms = []uint32{0o755, 0o2755}
		datas = []string{"hello"}
		flags = []int{os.O_RDONLY, os.O_WRONLY | os.O_CREATE | os.O_TRUNC, os.O_RDWR | os.O_CREATE | os.O_EXCL, os.O_WRONLY | os.O_APPEND, os.O_RDONLY | os.O_TRUNC}
	}
	for _, k := range c.kinds() {
		switch k {
		case "Mkdir", "MkdirAll", "Chmod":
			for _, p := range paths {
				for _, pm := range perms {
					r = append(r, Inst{{K: k, P: p, Perm: pm}})
				}
			}
		case "Open":
			for _, p := range paths {
				for _, f := range flags {
					for _, pm := range perms[:2] {
						r = append(r, openGroup(p, f, pm, "hello"))
					}
				}
			}
		case "Create":
			for _, p := range paths {
				r = append(r, Inst{{K: "Create", P: p, H: 0}, {K: "FWrite", H: 0, Data: "hi"}, {K: "FClose", H: 0}})
			}
		case "WriteFile":
			for _, p := range paths {
				for _, d := range datas {
					r = append(r, Inst{{K: k, P: p, Perm: perms[0], Data: d}})
				}
			}
		case "CreateTemp", "MkdirTemp":
			for _, d := range append([]string{""}, paths...) {
				for _, pat := range Patterns {
					r = append(r, tempGroup(k, d, pat, c.Base+"/c"))
					if reduced {
						break
					}
				}
			}
		case "Rename", "Link":
			for _, p := range paths {
				for _, p2 := range paths {
					r = append(r, Inst{{K: k, P: p, P2: p2}})
				}
			}
		case "Symlink":
			for _, tg := range c.Targets() {
				for _, p2 := range paths {
					r = append(r, Inst{{K: k, P: tg, P2: p2}})
				}
			}
		case "Truncate":
			for _, p := range paths {
				for _, s := range Sizes {
					r = append(r, Inst{{K: k, P: p, Size: s}})
				}
				for _, pr := range [][2]int64{{1, 3}, {2, 7}, {3, 2}} {
					r = append(r, Inst{{K: k, P: p, Size: pr[0]}, {K: k, P: p, Size: pr[1]}, {K: "ReadFile", P: p}})
				}
			}
		case "Chown", "Lchown":
			for _, p := range paths {
				for _, u := range Ids {
					for _, g := range Ids {
						if reduced && u != g {
							continue
						}
						r = append(r, Inst{{K: k, P: p, Uid: u, Gid: g}})
					}
				}
			}
		case "Chtimes":
			for _, p := range paths {
				for _, m := range Mtimes {
					r = append(r, Inst{{K: k, P: p, MT: m}, {K: "Mtime", P: p}})
				}
			}
		case "Getwd":
			r = append(r, Inst{{K: k}})
		case "Chdir":
			for _, p := range paths {
				r = append(r, Inst{{K: k, P: p}, {K: "Getwd"}, {K: "Stat", P: "."}})
			}
		case "OpenChdir":
			for _, p := range paths {
				r = append(r, Inst{{K: "Open", P: p, Flag: os.O_RDONLY, H: 0}, {K: "FChdir", H: 0}, {K: "Getwd"}, {K: "Stat", P: "."}, {K: "FClose", H: 0}})
				r = append(r, Inst{{K: "Open", P: p, Flag: os.O_RDONLY, H: 0}, {K: "Chdir", P: c.Base}, {K: "FChdir", H: 0}, {K: "Getwd"}, {K: "Stat", P: "."}, {K: "FClose", H: 0}})
			}
		case "WalkDir":
			for _, p := range paths {
				r = append(r, Inst{{K: k, P: p}})
				if !reduced {
					for act := 1; act <= 3; act++ {
						for at := 0; at < 4; at++ {
							r = append(r, Inst{{K: k, P: p, Act: act, At: at}})
						}
					}
				}
			}
		default:
			for _, p := range paths {
				r = append(r, Inst{{K: k, P: p}})
			}
		}
	}
	return r
}

// StartTrees are the canonical start states of the bounded-exhaustive tier,
// each a list of ops issued to both sides (all must succeed identically).
func (c Config) StartTrees() map[string][]fsx.Op {
	b := c.Base
	wf := func(p, d string) fsx.Op { return fsx.Op{K: "WriteFile", P: p, Data: d, Perm: 0o644} }
	md := func(p string) fsx.Op { return fsx.Op{K: "Mkdir", P: p, Perm: 0o755} }
	t := map[string][]fsx.Op{
		"empty":   {},
		"file":    {wf(b+"/a", "A")},
		"dirfile": {md(b + "/a"), wf(b+"/a/b", "AB"), wf(b+"/b", "B"), md(b + "/c")},
		"nested":  {md(b + "/a"), md(b + "/a/a"), wf(b+"/a/a/a", "AAA"), md(b + "/b"), wf(b+"/b/a", "BA")},
		"hard":    {md(b + "/a"), wf(b+"/a/b", "AB"), {K: "Link", P: b + "/a/b", P2: b + "/c"}, {K: "Link", P: b + "/a/b", P2: b + "/b"}},
		"modes":   {md(b + "/a"), wf(b+"/a/b", "AB"), {K: "Chmod", P: b + "/a", Perm: 0o2750}, {K: "Chmod", P: b + "/a/b", Perm: 0o4711}, wf(b+"/b", ""), {K: "Chdir", P: b + "/a"}},
		"cwd":     {md(b + "/a"), md(b + "/a/a"), wf(b+"/a/b", "AB"), {K: "Chdir", P: b + "/a"}},
		"content": {wf(b+"/a", "0123456789"), md(b + "/b"), wf(b+"/b/a", "hello"), {K: "Link", P: b + "/a", P2: b + "/c"}},
	}
	if !c.NoChown {
		// a set-group-ID directory of another group: what is created inside takes the directory's group
		t["sgid"] = []fsx.Op{md(b + "/a"), {K: "Chown", P: b + "/a", Uid: -1, Gid: 1002}, {K: "Chmod", P: b + "/a", Perm: 0o2775}, md(b + "/a/a"), wf(b+"/a/b", "AB"), wf(b+"/b", "B")}
	}
	if c.Symlinks {
		sl := func(tg, p string) fsx.Op { return fsx.Op{K: "Symlink", P: tg, P2: p} }
		t["links"] = []fsx.Op{md(b + "/a"), wf(b+"/a/b", "AB"), sl("a", b+"/b"), sl("a/b", b+"/c")}
		t["dangling"] = []fsx.Op{sl("nonexist", b+"/a"), sl("b", b+"/b"), md(b + "/c"), sl("../a", b+"/c/a")}
		t["cycle"] = []fsx.Op{sl("b", b+"/a"), sl("a", b+"/b"), sl(b, b+"/c")}
		t["abslink"] = []fsx.Op{md(b + "/a"), md(b + "/a/a"), wf(b+"/a/a/a", "X"), sl(b+"/a/a", b+"/b"), sl("..", b+"/a/b")}
	}
	return t
}
