// Package world runs one generated history in lock-step on an emulated avfs
// file system and on the Linux kernel (oracle thread), comparing every call's
// outcome and the complete trees.  Used by C01, C03, C04, C14.
package world

import (
	"fmt"
	"io/fs"
	"math"
	"os"
	"sort"
	"strings"
	"time"

	"github.com/avfs/avfs"
	"github.com/avfs/avfs/idm/memidm"
	"github.com/avfs/avfs/vfs/memfs"
	"github.com/avfs/avfs/vfs/orefafs"

	"verif/harness/internal/fsx"
	"verif/harness/internal/kernel"
	"verif/harness/internal/vt"
)

// SysDirs mirrors the system directories MemFS/OrefaFS create.
var SysDirs = map[string]os.FileMode{"/home": 0o700, "/root": 0o700, "/tmp": 0o777, "/w": 0o755}
var SysOrder = []string{"/home", "/root", "/tmp", "/w"}

// World is the pair of file systems for one case.
type World struct {
	Kind         string // MemFS | OrefaFS
	V            avfs.VFS
	E            *fsx.Runner // emulated side
	K            *fsx.Runner // kernel side (call only through Kdo)
	T            *kernel.Thread
	Roots        []string
	Umask        int
	Idm          *memidm.MemIdm
	Cwd          string       // reference cwd, tracked from Getwd on the kernel side
	Snap         fsx.Snap     // last reference snapshot
	Dead         bool         // an emulated call did not return; the instance is abandoned
	NoOwner      bool         // the file system has no identity manager: owners are not compared
	CwdStale     bool         // the reference cwd no longer is the directory Chdir named
	staleHandle  map[int]bool // slots opened through a relative path while the cwd was stale
	tempK, tempE string       // snapshot paths of the pending temp object on each side
	chdirPath    string       // what the last successful Chdir reached (kernel view)
	FastReads    bool         // skip the tree comparison after read-only calls
	asUser       avfs.UserReader
	asIdent      *Ident
}

// NewVFS creates a fresh Linux-typed emulated file system of the kind.
func NewVFS(kind string) (avfs.VFS, *memidm.MemIdm) {
	switch kind {
	case "OrefaFS":
		return orefafs.NewWithOptions(&orefafs.Options{OSType: avfs.OsLinux}), nil
	default:
		idm := memidm.NewWithOptions(&memidm.Options{OSType: avfs.OsLinux})
		return memfs.NewWithOptions(&memfs.Options{OSType: avfs.OsLinux, Idm: idm}), idm
	}
}

// New prepares both sides: same system directories, /w as work directory,
// cwd "/", the given umask, administrator identity.
func New(t *kernel.Thread, kind string, umask int) (*World, error) {
	v, idm := NewVFS(kind)
	w := &World{Kind: kind, V: v, T: t, Umask: umask, Idm: idm, Cwd: "/", chdirPath: "/"}
	w.E = fsx.NewRunner(v)
	w.K = fsx.NewRunner(fsx.OSFS{})
	if kind == "OrefaFS" {
		// no identity manager, but nodes carry the numeric owner Chown gives them, and the
		// administrator's own id (math.MaxInt) otherwise: that one is read as the kernel's 0
		w.E.OwnerZero = math.MaxInt
		w.Roots = []string{"/a", "/b", "/c", "/home", "/root", "/tmp", "/w"}
	} else {
		w.Roots = []string{"/"}
	}
	if err := t.Reset(SysDirs, SysOrder); err != nil {
		return nil, fmt.Errorf("kernel reset: %v", err)
	}
	_ = v.SetUMask(0)
	if err := v.Mkdir("/w", 0o755); err != nil {
		return nil, fmt.Errorf("setup mkdir /w: %v", err)
	}
	if err := v.Chdir("/"); err != nil && kind != "OrefaFS" {
		return nil, fmt.Errorf("setup chdir /: %v", err)
	}
	_ = v.SetUMask(fs.FileMode(umask))
	t.Umask(umask)
	w.Snap = w.SnapK()
	if p, f, l, r, ok := fsx.Diff(w.SnapE(), w.Snap); !ok {
		return nil, fmt.Errorf("initial trees differ at %s %s: %q vs %q", p, f, l, r)
	}
	return w, nil
}

// HangTimeout bounds one emulated call. A call on a tree of a few dozen nodes
// takes microseconds; only a self-deadlock or an endless loop reaches it. The
// verdict HANG is a C01 outcome deviation only in the sense that the kernel
// returned and the emulation did not; C07 decides deadlocks exactly.
var HangTimeout = hangTimeout()

func hangTimeout() time.Duration {
	if v := os.Getenv("VERIF_HANG_MS"); v != "" {
		var n int
		if _, err := fmt.Sscan(v, &n); err == nil && n > 0 {
			return time.Duration(n) * time.Millisecond
		}
	}
	return 30 * time.Second
}

func (w *World) doE(o fsx.Op) fsx.Out {
	if w.Dead {
		return fsx.Out{Err: "HANG"}
	}
	w.E.Guard = HangTimeout
	out := w.E.Do(o)
	if out.Err == "HANG" {
		w.Dead = true
	}
	return out
}

// Kdo runs f on the oracle thread.
func (w *World) Kdo(f func()) { w.T.Do(f) }

// SnapE snapshots the emulated side (guarded like a call: a lock left held by
// an earlier call would block the walk).
func (w *World) SnapE() fsx.Snap {
	if w.Dead {
		return fsx.Snap{{Path: "/", Err: "HANG"}}
	}
	s := fsx.Snapshot(w.V, fsx.SnapOpts{Roots: w.Roots, NoOwner: w.NoOwner, OwnerZero: w.E.OwnerZero}) // guarded there
	if len(s) == 1 && s[0].Err == "HANG" {
		w.Dead = true
	}
	return s
}

// SnapK snapshots the kernel side.
func (w *World) SnapK() (s fsx.Snap) {
	w.Kdo(func() { s = fsx.Snapshot(fsx.OSFS{}, fsx.SnapOpts{Roots: w.Roots, NoOwner: w.NoOwner}) })
	return s
}

// Close releases the handles of both sides.
func (w *World) Close() {
	if !w.Dead {
		w.E.CloseAll()
	}
	w.Kdo(func() { w.K.CloseAll() })
}

// Situation computes the pre-call signature fields of an op on the current
// reference state.
func (w *World) Situation(prop string, o fsx.Op) map[string]string {
	f := map[string]string{"prop": prop, "fs": w.Kind, "op": o.K}
	if o.K == "Symlink" {
		// P is the link text, P2 the new name
		f["a"] = fsx.Classify(w.Snap, w.Cwd, o.P2)
		f["b"] = "target:" + targetShape(o.P)
	} else {
		if o.P != "" || o.K == "Mkdir" || o.K == "Chdir" || o.K == "Stat" {
			f["a"] = fsx.Classify(w.Snap, w.Cwd, o.P)
		}
		if o.P2 != "" && (o.K == "Rename" || o.K == "Link") {
			f["b"] = fsx.Classify(w.Snap, w.Cwd, o.P2)
			f["rel"] = fsx.Relation(w.Snap, w.Cwd, o.P, o.P2)
		}
	}
	if w.CwdStale {
		// the working directory was renamed or removed after Chdir: the kernel
		// follows the directory, the emulation keeps the path string
		if o.P != "" && !strings.HasPrefix(o.P, "/") && o.K != "Symlink" {
			f["a"] += ",cwd-stale"
		}
		if o.P2 != "" && !strings.HasPrefix(o.P2, "/") {
			if o.K == "Symlink" {
				f["a"] += ",cwd-stale"
			} else {
				f["b"] += ",cwd-stale"
			}
		}
		if o.K == "Getwd" || (o.K == "CreateTemp" || o.K == "MkdirTemp") && o.P != "" && !strings.HasPrefix(o.P, "/") {
			f["a"] += ",cwd-stale"
		}
	}
	if strings.HasPrefix(o.K, "F") && w.staleHandle[o.H] {
		// a handle opened through a relative path while the working directory was stale: the two
		// sides may hold different objects (same finding, one call later)
		f["a"] += "handle,cwd-stale"
	}
	if (o.K == "Open" || o.K == "Create" || o.K == "CreateTemp") && w.staleHandle != nil {
		delete(w.staleHandle, o.H)
	}
	if w.CwdStale && (o.K == "Open" || o.K == "Create") && o.P != "" && !strings.HasPrefix(o.P, "/") {
		if w.staleHandle == nil {
			w.staleHandle = map[int]bool{}
		}
		w.staleHandle[o.H] = true
	}
	f["params"] = ParamClass(w, o)
	f["ab"] = f["a"] + ";" + f["b"]
	return f
}

func targetShape(t string) string {
	switch {
	case strings.HasPrefix(t, "/"):
		return "abs"
	case strings.HasPrefix(t, "../"), t == "..":
		return "dotdot"
	case t == ".":
		return "dot"
	case strings.Contains(t, "/"):
		return "sub"
	}
	return "sibling"
}

// ParamClass abstracts the scalar parameters of an op.
func ParamClass(w *World, o fsx.Op) string {
	switch o.K {
	case "Open":
		return fsx.FlagString(o.Flag) + fmt.Sprintf(",perm=%s", permClass(o.Perm))
	case "Mkdir", "MkdirAll", "Chmod", "WriteFile", "FChmod":
		return "perm=" + permClass(o.Perm)
	case "Truncate", "FTruncate":
		switch {
		case o.Size < 0:
			return "size<0"
		case o.Size == 0:
			return "size=0"
		}
		return "size>0"
	case "Chown", "Lchown", "FChown":
		c := func(x int) string {
			if x == -1 {
				return "-1"
			}
			if x == 0 {
				return "0"
			}
			return "n"
		}
		return "uid=" + c(o.Uid) + ",gid=" + c(o.Gid)
	case "WalkDir":
		return fmt.Sprintf("act=%d", o.Act)
	}
	return ""
}

func permClass(p uint32) string {
	s := "plain"
	if p&0o7000 != 0 {
		s = ""
		if p&0o4000 != 0 {
			s += "u"
		}
		if p&0o2000 != 0 {
			s += "g"
		}
		if p&0o1000 != 0 {
			s += "t"
		}
	}
	return s
}

// Step issues op on both sides and compares outcomes and trees. It returns
// the two outcomes and a deviation (nil when the sides agree).
func (w *World) Step(prop string, o fsx.Op) (oe, ok fsx.Out, dev *vt.Deviation) {
	sit := w.Situation(prop, o)
	prevCwd := w.Cwd
	if w.asIdent != nil {
		// identity switch for the duration of the call only
		w.Kdo(func() {
			_ = kernel.SetFS(w.asIdent.Uid, w.asIdent.Gid, []int{})
			ok = w.K.Do(o)
			_ = kernel.SetFS(0, 0, []int{})
		})
		_ = w.V.SetUser(w.asUser)
		oe = w.doE(o)
		_ = w.V.SetUser(w.Idm.AdminUser())
	} else {
		w.Kdo(func() { ok = w.K.Do(o) })
		oe = w.doE(o)
	}
	mk := func(exp, obs, detail string) *vt.Deviation {
		d := &vt.Deviation{Fields: map[string]string{}}
		for k, v := range sit {
			d.Fields[k] = v
		}
		d.Fields["expected"] = exp
		d.Fields["observed"] = obs
		d.Detail = fmt.Sprintf("%s %s: kernel %s, %s %s; %s", w.Kind, o.String(), ok, w.Kind, oe, detail)
		return d
	}
	if oe.Err != ok.Err {
		return oe, ok, mk(ok.Err, oe.Err, "outcome differs")
	}
	if oe.Val != ok.Val {
		return oe, ok, mk("val", "val:"+valDiffClass(o, ok.Val, oe.Val), "returned value differs")
	}
	if w.FastReads && readOnly[o.K] {
		return oe, ok, nil // a read-only call that answered identically: the trees are not re-walked
	}
	// track the reference cwd: chdirPath is what the last successful Chdir
	// reached; the working directory is stale when the kernel's Getwd no longer
	// returns it (the directory was renamed or removed afterwards)
	w.Kdo(func() {
		d, err := os.Getwd()
		if (o.K == "Chdir" || o.K == "FChdir") && ok.Err == "ok" && err == nil {
			w.chdirPath = d
		}
		if err == nil {
			w.Cwd = d
		}
		w.CwdStale = err != nil || d != w.chdirPath
	})
	sk := w.SnapK()
	se := w.SnapE()
	if (o.K == "CreateTemp" || o.K == "MkdirTemp") && ok.Err == "ok" {
		// the one path that is new on each side is the temp object
		w.tempK, w.tempE = newPath(w.Snap, sk), newPath(w.Snap, se)
	}
	if o.K == "RenameTemp" {
		w.tempK, w.tempE = "", ""
	}
	if w.tempK != "" && w.tempE != "" {
		// a temp object not yet renamed to its canonical name: the random names
		// differ by construction, both are mapped to one placeholder
		sk = renameInSnap(sk, w.tempK, "\x00TEMP")
		se = renameInSnap(se, w.tempE, "\x00TEMP")
	}
	if p, f, l, r, same := fsx.Diff(se, sk); !same {
		where := locate(w.Snap, prevCwd, o, p)
		w.Snap = sk
		return oe, ok, mk("tree", "tree:"+f+"@"+where, fmt.Sprintf("trees differ at %s field %s: %s has %q, kernel has %q", p, f, w.Kind, l, r))
	}
	w.Snap = sk
	return oe, ok, nil
}

func valDiffClass(o fsx.Op, want, got string) string {
	switch o.K {
	case "Stat", "Lstat", "FStat":
		fw, fg := strings.Fields(want), strings.Fields(got)
		names := []string{"name", "type", "perm", "owner", "size", "nlink"}
		for i := 0; i < len(fw) && i < len(fg); i++ {
			if fw[i] != fg[i] {
				if i < len(names) {
					if strings.HasPrefix(fw[i], "size=") {
						return "size"
					}
					if strings.HasPrefix(fw[i], "nlink=") {
						return "nlink"
					}
					return names[i]
				}
			}
		}
		return "fields"
	}
	return o.K
}

// locate expresses a differing path relative to the operands of the call.
func locate(s fsx.Snap, cwd string, o fsx.Op, p string) string {
	abs := func(x string) string {
		if x == "" {
			return ""
		}
		if strings.HasPrefix(x, "/") {
			return strings.TrimSuffix(x, "/")
		}
		return strings.TrimSuffix(cwd, "/") + "/" + x
	}
	a, b := abs(o.P), abs(o.P2)
	if o.K == "Symlink" {
		a, b = b, ""
	}
	dir := func(x string) string {
		i := strings.LastIndex(x, "/")
		if i <= 0 {
			return "/"
		}
		return x[:i]
	}
	switch {
	case a != "" && p == a:
		return "a"
	case b != "" && p == b:
		return "b"
	case a != "" && strings.HasPrefix(p, a+"/"):
		return "under-a"
	case b != "" && strings.HasPrefix(p, b+"/"):
		return "under-b"
	case a != "" && p == dir(a):
		return "a-parent"
	case b != "" && p == dir(b):
		return "b-parent"
	case a != "" && dir(p) == dir(a):
		return "a-sibling"
	case b != "" && dir(p) == dir(b):
		return "b-sibling"
	}
	return "elsewhere"
}

func renameInSnap(s fsx.Snap, from, placeholder string) fsx.Snap {
	if from == "" {
		return s
	}
	i := strings.LastIndex(from, "/")
	to := from[:i+1] + placeholder
	out := make(fsx.Snap, len(s))
	copy(out, s)
	for j := range out {
		if out[j].Path == from {
			out[j].Path = to
		}
	}
	sort.SliceStable(out, func(a, b int) bool { return out[a].Path < out[b].Path })
	return out
}

func newPath(old, cur fsx.Snap) string {
	found := ""
	for _, r := range cur {
		if r.Type != "" && old.Lookup(r.Path) == nil {
			if found != "" {
				return ""
			}
			found = r.Path
		}
	}
	return found
}

var readOnly = map[string]bool{"Stat": true, "Lstat": true, "ReadFile": true, "ReadDir": true, "EvalSymlinks": true, "Readlink": true, "Getwd": true, "WalkDir": true, "Glob": true, "Mtime": true}

// Users of the permission checks: numeric ids are the ones MemIdm hands out
// (1001, 1002, ...); the kernel needs no passwd entries for them.
type Ident struct {
	Uid, Gid int
}

// SetupUsers creates g1, g2 and u1 (g1), u2 (g1), u3 (g2) in the identity
// manager of the emulated file system and returns their ids.
func (w *World) SetupUsers() (map[string]Ident, error) {
	if w.Idm == nil {
		return nil, fmt.Errorf("no identity manager")
	}
	ids := map[string]Ident{"root": {0, 0}}
	for _, g := range []string{"g1", "g2"} {
		if _, err := w.Idm.AddGroup(g); err != nil {
			return nil, err
		}
	}
	for _, u := range [][2]string{{"u1", "g1"}, {"u2", "g1"}, {"u3", "g2"}} {
		ur, err := w.Idm.AddUser(u[0], u[1])
		if err != nil {
			return nil, err
		}
		ids[u[0]] = Ident{ur.Uid(), ur.Gid()}
	}
	return ids, nil
}

// StepAs issues the op under the given identity on both sides (MemFS:
// SetUser, kernel: setfsuid/setfsgid on the oracle thread, no supplementary
// groups) and switches back to the administrator before the trees are compared.
func (w *World) StepAs(prop string, o fsx.Op, id Ident) (oe, ok fsx.Out, dev *vt.Deviation) {
	if id.Uid == 0 {
		return w.Step(prop, o)
	}
	u, err := w.Idm.LookupUserId(id.Uid)
	if err != nil {
		return oe, ok, &vt.Deviation{Fields: map[string]string{"prop": prop, "harness": "unknown-uid"}, Detail: err.Error()}
	}
	w.asUser, w.asIdent = u, &id
	defer func() { w.asUser, w.asIdent = nil, nil }()
	return w.Step(prop, o)
}
