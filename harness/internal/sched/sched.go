//go:build verif

// Package sched is the deterministic scheduler of DESIGN.md 3.8: workers are
// goroutines of which exactly one runs at a time; a worker yields before every
// Lock/RLock (verifsync hook) and when its program ends; the scheduler knows
// the holders of every mutex and therefore which waiting workers can be
// granted their lock.  A deadlock is the fact that some worker is unfinished
// and none is enabled - never a timeout.
package sched

import (
	"fmt"
	"sort"
	"strings"
	"unsafe"

	"github.com/avfs/avfs/verifsync"
)

// Verdict of one execution.
type Verdict struct {
	Kind      string   // ok | deadlock | hang:budget | panic
	Detail    string   // human readable
	Shape     string   // abstract shape for signatures (e.g. lock cycle shape)
	Trace     []int    // the choices taken (indices into the enabled list at each step)
	Steps     int      // scheduling steps
	Preempt   int      // pre-emptions taken
	Contended bool     // two workers acquired the same mutex during the execution
	Panics    []string // per worker panic value ("" if none)
}

type waitReq struct {
	m     unsafe.Pointer
	write bool
}

type worker struct {
	id        int
	prog      func()
	resume    chan struct{}
	done      bool
	started   bool
	wait      *waitReq
	announced bool // pending writer announced (blocks new readers)
	yields    int
	panicVal  any
	holding   map[unsafe.Pointer]int // lock -> count (read or write)
}

type lockState struct {
	writer  *worker
	readers map[*worker]int
	users   map[int]bool
}

// Choice is one schedulable step.
type Choice struct {
	Worker   int
	Announce bool
}

// Chooser picks the index of the next step among the enabled ones. prev is
// the worker that ran last (-1 at the start) and prevEnabled whether it is
// still enabled (choosing another one is then a pre-emption).
type Chooser func(step int, enabled []Choice, prev int, prevEnabled bool) int

// Sched runs one program set under one schedule.
type Sched struct {
	workers []*worker
	cur     *worker
	events  chan *worker
	locks   map[unsafe.Pointer]*lockState
	Budget  int // max yields per worker
	names   map[unsafe.Pointer]string
}

// New creates a scheduler for the given worker programs.
func New(progs ...func()) *Sched {
	s := &Sched{events: make(chan *worker), locks: map[unsafe.Pointer]*lockState{}, Budget: 100000, names: map[unsafe.Pointer]string{}}
	for i, p := range progs {
		s.workers = append(s.workers, &worker{id: i, prog: p, resume: make(chan struct{}), holding: map[unsafe.Pointer]int{}})
	}
	return s
}

func (s *Sched) lock(m unsafe.Pointer) *lockState {
	l := s.locks[m]
	if l == nil {
		l = &lockState{readers: map[*worker]int{}, users: map[int]bool{}}
		s.locks[m] = l
	}
	return l
}

func (s *Sched) lockName(m unsafe.Pointer) string {
	if n, ok := s.names[m]; ok {
		return n
	}
	n := fmt.Sprintf("L%d", len(s.names))
	s.names[m] = n
	return n
}

// hooks: called on the goroutine that performs the lock operation.
func (s *Sched) beforeLock(m unsafe.Pointer, write bool) {
	w := s.cur
	if w == nil {
		return // not a worker (harness code while no worker runs)
	}
	w.wait = &waitReq{m, write}
	w.yields++
	s.cur = nil
	s.events <- w
	<-w.resume
	w.wait = nil
	w.announced = false
}

func (s *Sched) afterLock(m unsafe.Pointer, write bool) {
	w := s.cur
	if w == nil {
		return
	}
	l := s.lock(m)
	l.users[w.id] = true
	if write {
		l.writer = w
	} else {
		l.readers[w]++
	}
	w.holding[m]++
}

func (s *Sched) afterUnlock(m unsafe.Pointer, write bool) {
	w := s.cur
	if w == nil {
		return
	}
	l := s.lock(m)
	if write {
		if l.writer == w {
			l.writer = nil
		}
	} else {
		if l.readers[w] > 0 {
			l.readers[w]--
			if l.readers[w] == 0 {
				delete(l.readers, w)
			}
		}
	}
	if w.holding[m] > 0 {
		w.holding[m]--
		if w.holding[m] == 0 {
			delete(w.holding, m)
		}
	}
}

// grantable reports whether w's pending request can be granted now.
func (s *Sched) grantable(w *worker) bool {
	if w.wait == nil {
		return true
	}
	l := s.lock(w.wait.m)
	if w.wait.write {
		return l.writer == nil && len(l.readers) == 0
	}
	if l.writer != nil {
		return false
	}
	// a reader is blocked by an announced pending writer (sync.RWMutex semantics)
	for _, o := range s.workers {
		if o != w && !o.done && o.wait != nil && o.wait.write && o.wait.m == w.wait.m && o.announced {
			return false
		}
	}
	return true
}

func (s *Sched) enabled() []Choice {
	var r []Choice
	for _, w := range s.workers {
		if w.done {
			continue
		}
		if s.grantable(w) {
			r = append(r, Choice{Worker: w.id})
		}
	}
	// announce steps: a write waiter on a reader-held mutex may become a
	// pending writer (it has called Lock and blocks new readers from now on)
	for _, w := range s.workers {
		if w.done || w.wait == nil || !w.wait.write || w.announced {
			continue
		}
		l := s.lock(w.wait.m)
		if len(l.readers) > 0 && l.writer == nil {
			r = append(r, Choice{Worker: w.id, Announce: true})
		}
	}
	return r
}

// Run executes the programs under the chooser and returns the verdict.
// The hooks are installed for the duration of the run.
func (s *Sched) Run(choose Chooser) (v Verdict) {
	verifsync.SetHooks(&verifsync.Hooks{BeforeLock: s.beforeLock, AfterLock: s.afterLock, AfterUnlock: s.afterUnlock})
	defer verifsync.SetHooks(nil)
	for _, w := range s.workers {
		w := w
		go func() {
			<-w.resume
			defer func() {
				if p := recover(); p != nil {
					w.panicVal = p
				}
				w.done = true
				s.cur = nil
				s.events <- w
			}()
			w.prog()
		}()
	}
	prev := -1
	step := 0
	for {
		en := s.enabled()
		real := 0
		allDone := true
		for _, w := range s.workers {
			if !w.done {
				allDone = false
			}
		}
		for _, c := range en {
			if !c.Announce {
				real++
			}
		}
		if allDone {
			v.Kind = "ok"
			break
		}
		if real == 0 {
			v.Kind = "deadlock"
			v.Detail, v.Shape = s.describeDeadlock()
			break
		}
		prevEnabled := false
		for _, c := range en {
			if !c.Announce && c.Worker == prev {
				prevEnabled = true
			}
		}
		i := choose(step, en, prev, prevEnabled)
		if i < 0 || i >= len(en) {
			i = 0
		}
		v.Trace = append(v.Trace, i)
		c := en[i]
		step++
		if c.Announce {
			s.workers[c.Worker].announced = true
			continue
		}
		if prevEnabled && c.Worker != prev {
			v.Preempt++
		}
		w := s.workers[c.Worker]
		w.started = true
		s.cur = w
		w.resume <- struct{}{}
		<-s.events
		prev = w.id
		if w.yields > s.Budget {
			v.Kind = "hang:budget"
			v.Detail = fmt.Sprintf("worker %d acquired more than %d locks in one program", w.id, s.Budget)
			v.Shape = "budget"
			break
		}
	}
	v.Steps = step
	for _, l := range s.locks {
		if len(l.users) > 1 {
			v.Contended = true
		}
	}
	for _, w := range s.workers {
		p := ""
		if w.panicVal != nil {
			p = fmt.Sprint(w.panicVal)
			if v.Kind == "ok" {
				v.Kind = "panic"
				v.Detail = fmt.Sprintf("worker %d panicked: %s", w.id, p)
				v.Shape = "panic"
			}
		}
		v.Panics = append(v.Panics, p)
	}
	return v
}

// describeDeadlock renders who waits for what and abstracts the wait-for shape.
func (s *Sched) describeDeadlock() (string, string) {
	var parts []string
	self := false
	n := 0
	for _, w := range s.workers {
		if w.done || w.wait == nil {
			continue
		}
		n++
		l := s.lock(w.wait.m)
		var holders []string
		if l.writer != nil {
			holders = append(holders, fmt.Sprintf("w%d(write)", l.writer.id))
			if l.writer == w {
				self = true
			}
		}
		for r := range l.readers {
			holders = append(holders, fmt.Sprintf("w%d(read)", r.id))
			if r == w {
				self = true
			}
		}
		sort.Strings(holders)
		mode := "read"
		if w.wait.write {
			mode = "write"
		}
		parts = append(parts, fmt.Sprintf("w%d waits for %s lock on %s held by %s", w.id, mode, s.lockName(w.wait.m), strings.Join(holders, ",")))
	}
	shape := fmt.Sprintf("cycle%d", n)
	if self {
		shape = "self"
	}
	return strings.Join(parts, "; "), shape
}

// ---- choosers

// Replay follows a recorded trace, then continues non-preemptively.
func Replay(trace []int) Chooser {
	return func(step int, en []Choice, prev int, prevEnabled bool) int {
		if step < len(trace) && trace[step] < len(en) {
			return trace[step]
		}
		return NonPreemptive(step, en, prev, prevEnabled)
	}
}

// NonPreemptive keeps running the previous worker while it is enabled.
func NonPreemptive(step int, en []Choice, prev int, prevEnabled bool) int {
	for i, c := range en {
		if !c.Announce && c.Worker == prev {
			return i
		}
	}
	for i, c := range en {
		if !c.Announce {
			return i
		}
	}
	return 0
}

// Explore enumerates depth-first all schedules with at most maxPreempt
// pre-emptions (a switch away from a worker that is still enabled; announce
// steps count as pre-emptions). mk builds a fresh scheduler (fresh file system,
// fresh programs) for every execution; visit receives each verdict and returns
// false to stop. It returns the number of executions and whether the
// enumeration completed.
func Explore(mk func() *Sched, maxPreempt, maxExec int, visit func(Verdict) bool) (int, bool) {
	type frame struct {
		order   []int  // choice indices: default first, then the others
		costly  []bool // per position in order: is it a pre-emption
		pos     int
		preUsed int // pre-emptions used before this step
	}
	var stack []frame
	execs := 0
	for {
		s := mk()
		depth := 0
		pre := 0
		chooser := func(step int, en []Choice, prev int, prevEnabled bool) int {
			if depth < len(stack) {
				f := stack[depth]
				depth++
				if f.costly[f.pos] {
					pre++
				}
				if f.order[f.pos] >= len(en) {
					return 0 // the program is not deterministic under the schedule; stay defined
				}
				return f.order[f.pos]
			}
			def := NonPreemptive(step, en, prev, prevEnabled)
			order := []int{def}
			costly := []bool{false}
			for i, c := range en {
				if i == def {
					continue
				}
				order = append(order, i)
				costly = append(costly, c.Announce || prevEnabled)
			}
			stack = append(stack, frame{order: order, costly: costly, pos: 0, preUsed: pre})
			depth++
			return def
		}
		v := s.Run(chooser)
		execs++
		if !visit(v) || execs >= maxExec {
			return execs, false
		}
		if depth < len(stack) {
			stack = stack[:depth]
		}
		for len(stack) > 0 {
			f := &stack[len(stack)-1]
			next := -1
			for p := f.pos + 1; p < len(f.order); p++ {
				cost := 0
				if f.costly[p] {
					cost = 1
				}
				if f.preUsed+cost <= maxPreempt {
					next = p
					break
				}
			}
			if next >= 0 {
				f.pos = next
				break
			}
			stack = stack[:len(stack)-1]
		}
		if len(stack) == 0 {
			return execs, true
		}
	}
}
