package vt

import (
	"flag"
	"strconv"
)

// setRapidFlags sets rapid's command-line flags programmatically; rapid reads
// them at Check time. A zero seed would mean "random" and is never passed.
func setRapidFlags(checks int, seed uint64) {
	if seed == 0 {
		seed = 1
	}
	_ = flag.Set("rapid.checks", strconv.Itoa(checks))
	_ = flag.Set("rapid.seed", strconv.FormatUint(seed, 10))
	_ = flag.Set("rapid.nofailfile", "true")
	_ = flag.Set("rapid.shrinktime", "20s")
}
