// Package vt is the small test kit shared by all property checks: run context
// (tier, seed, shard), measured coverage counters, known-finding matching,
// violation / replay files and a rapid driver that does not abort the process
// at the first failure.
package vt

import (
	"crypto/sha256"
	"encoding/hex"
	"encoding/json"
	"fmt"
	"hash/fnv"
	"os"
	"path/filepath"
	"regexp"
	"sort"
	"strconv"
	"strings"
	"sync"
	"testing"
	"time"

	"pgregory.net/rapid"
)

// Root is the /verif directory (overridable for self tests).
func Root() string {
	if r := os.Getenv("VERIF_ROOT"); r != "" {
		return r
	}
	return "/verif"
}

// Deviation is one disagreement between the code under test and its oracle,
// abstracted into named fields (the "signature" of DESIGN.md 3.5).
type Deviation struct {
	Fields map[string]string `json:"fields"`
	Detail string            `json:"detail,omitempty"`
}

// Sig renders the signature in a canonical order.
func (d *Deviation) Sig() string {
	keys := make([]string, 0, len(d.Fields))
	for k := range d.Fields {
		keys = append(keys, k)
	}
	sort.Strings(keys)
	var sb strings.Builder
	for i, k := range keys {
		if i > 0 {
			sb.WriteByte('|')
		}
		sb.WriteString(k + "=" + d.Fields[k])
	}
	return sb.String()
}

// Dev builds a deviation from alternating key, value strings.
func Dev(kv ...string) *Deviation {
	d := &Deviation{Fields: map[string]string{}}
	for i := 0; i+1 < len(kv); i += 2 {
		d.Fields[kv[i]] = kv[i+1]
	}
	return d
}

// Known is one entry of known_findings.json.
type Known struct {
	ID       string            `json:"id"`
	Property string            `json:"property"`
	Status   string            `json:"status"` // open | fixed
	What     string            `json:"what"`
	Match    map[string]string `json:"match"` // field -> anchored regexp; absent field = justified wildcard
	Why      string            `json:"root_cause,omitempty"`
	Wild     string            `json:"wildcards_justified,omitempty"`
	Witness  string            `json:"witness,omitempty"`
	Commit   string            `json:"commit,omitempty"`
	Steer    string            `json:"steer,omitempty"` // "always": never issue the situation in multi-step histories
	re       map[string]*regexp.Regexp
}

// Matches reports whether all constraints of the entry hold for d.
func (k *Known) Matches(d *Deviation) bool {
	for f, re := range k.re {
		v, ok := d.Fields[f]
		if !ok {
			v = ""
		}
		if !re.MatchString(v) {
			return false
		}
	}
	return true
}

// Ctx is the per-process run context.
type Ctx struct {
	Prop    string
	Tier    string // quick | thorough
	Seed    uint64
	Shard   int
	NShards int
	Replay  string // non-empty: replay this file only
	OutDir  string
	T       *testing.T

	mu         sync.Mutex
	start      time.Time
	known      []*Known
	evals      int64
	labels     map[string]int64
	nontrivial map[uint64]struct{}
	samples    []any
	sampleKeys map[string]bool
	knownHits  map[string]int64
	knownSigs  map[string]map[string]struct{}
	knownLive  map[string]bool // witness still reproduces
	excluded   map[string]int64
	violations []Violation
	violSigs   map[string]bool
	inconcl    []string
	extra      map[string]any
	exhaustive *bool
	hangs      int
	subChecks  map[string]int64
}

// Violation is a reported, unlisted deviation.
type Violation struct {
	Sig    string `json:"sig"`
	Detail string `json:"detail"`
	Replay string `json:"replay"`
}

func envInt(k string, def int) int {
	if v := os.Getenv(k); v != "" {
		if n, err := strconv.Atoi(v); err == nil {
			return n
		}
	}
	return def
}

// New creates the context from the environment set by bin/check.
func New(t *testing.T, prop string) *Ctx {
	c := &Ctx{
		Prop: prop, Tier: os.Getenv("VERIF_TIER"), T: t,
		Shard: envInt("VERIF_SHARD", 0), NShards: envInt("VERIF_NSHARDS", 1),
		Replay: os.Getenv("VERIF_REPLAY"), OutDir: os.Getenv("VERIF_OUT"),
		start: time.Now(), labels: map[string]int64{}, nontrivial: map[uint64]struct{}{},
		sampleKeys: map[string]bool{}, knownHits: map[string]int64{}, knownSigs: map[string]map[string]struct{}{},
		knownLive: map[string]bool{}, excluded: map[string]int64{}, violSigs: map[string]bool{},
		extra: map[string]any{}, subChecks: map[string]int64{},
	}
	if c.Tier == "" {
		c.Tier = "quick"
	}
	seed := uint64(1)
	if v := os.Getenv("VERIF_SEED"); v != "" {
		if n, err := strconv.ParseInt(v, 10, 64); err == nil {
			seed = uint64(n)
		}
	}
	c.Seed = seed
	c.loadKnown()
	return c
}

// Thorough reports whether the thorough tier is running.
func (c *Ctx) Thorough() bool { return c.Tier == "thorough" }

// Pick returns q in the quick tier and th in the thorough tier.
func (c *Ctx) Pick(q, th int) int {
	if c.Thorough() {
		return th
	}
	return q
}

// RapidSeed derives the never-zero rapid seed of this shard and sub-check.
func (c *Ctx) RapidSeed(sub string) uint64 {
	h := fnv.New64a()
	h.Write([]byte(sub))
	v := c.Seed*1000003 + uint64(c.Shard)*7919 + h.Sum64()%1000003
	v %= (1 << 62)
	return v + 1
}

func (c *Ctx) loadKnown() {
	b, err := os.ReadFile(filepath.Join(Root(), "known_findings.json"))
	if err != nil {
		return
	}
	var all struct {
		Findings []*Known `json:"findings"`
	}
	if err := json.Unmarshal(b, &all); err != nil {
		c.Inconclusive("known_findings.json unreadable: " + err.Error())
		return
	}
	for _, k := range all.Findings {
		if k.Property != c.Prop {
			continue
		}
		k.re = map[string]*regexp.Regexp{}
		for f, p := range k.Match {
			re, err := regexp.Compile("^(?:" + p + ")$")
			if err != nil {
				c.Inconclusive("known finding " + k.ID + ": bad pattern: " + err.Error())
				continue
			}
			k.re[f] = re
		}
		c.known = append(c.known, k)
	}
}

// OpenKnown returns the open known findings of this property.
func (c *Ctx) OpenKnown() []*Known {
	var r []*Known
	for _, k := range c.known {
		if k.Status == "open" {
			r = append(r, k)
		}
	}
	return r
}

// KnownFor returns the open entry matching d, or nil.
func (c *Ctx) KnownFor(d *Deviation) *Known {
	for _, k := range c.known {
		if k.Status == "open" && k.Matches(d) {
			return k
		}
	}
	return nil
}

// Eval counts n evaluated cases.
func (c *Ctx) Eval(n int) {
	c.mu.Lock()
	c.evals += int64(n)
	c.mu.Unlock()
}

// Label counts an occurrence of a label (distribution of generated cases).
func (c *Ctx) Label(l string) {
	c.mu.Lock()
	c.labels[l]++
	c.mu.Unlock()
}

// LabelN adds n to a label.
func (c *Ctx) LabelN(l string, n int) {
	c.mu.Lock()
	c.labels[l] += int64(n)
	c.mu.Unlock()
}

// Hash64 hashes a canonical rendering of a case.
func Hash64(parts ...string) uint64 {
	h := fnv.New64a()
	for _, p := range parts {
		h.Write([]byte(p))
		h.Write([]byte{0})
	}
	return h.Sum64()
}

// NonTrivial records a distinct non-trivial case by its canonical hash.
func (c *Ctx) NonTrivial(hash uint64) {
	c.mu.Lock()
	c.nontrivial[hash] = struct{}{}
	c.mu.Unlock()
}

// Sample keeps up to a few sample cases, at most one per key.
func (c *Ctx) Sample(key string, v any) {
	c.mu.Lock()
	defer c.mu.Unlock()
	if c.sampleKeys[key] || len(c.samples) >= 8 {
		return
	}
	c.sampleKeys[key] = true
	c.samples = append(c.samples, v)
}

// Excluded counts a case that the generator did not issue because it matches
// the situation of an open known finding (steering).
func (c *Ctx) Excluded(id string) {
	c.mu.Lock()
	c.excluded[id]++
	c.mu.Unlock()
}

// Extra records an extra coverage key.
func (c *Ctx) Extra(k string, v any) {
	c.mu.Lock()
	c.extra[k] = v
	c.mu.Unlock()
}

// AddExtra adds n to a numeric extra coverage key.
func (c *Ctx) AddExtra(k string, n int64) {
	c.mu.Lock()
	old, _ := c.extra[k].(int64)
	c.extra[k] = old + n
	c.mu.Unlock()
}

// SetExhaustive records whether an enumerator completed its finite domain.
func (c *Ctx) SetExhaustive(b bool) {
	c.mu.Lock()
	if c.exhaustive == nil || !b {
		c.exhaustive = &b
	}
	c.mu.Unlock()
}

// Inconclusive records a reason for exit code 2.
func (c *Ctx) Inconclusive(why string) {
	c.mu.Lock()
	c.inconcl = append(c.inconcl, why)
	c.mu.Unlock()
}

// Report triages a deviation: a known hit is counted, anything else becomes a
// violation with the given replay case written to /verif/replays/<prop>/.
// It returns true when the deviation is a (new) violation.
func (c *Ctx) Report(d *Deviation, replay any) bool {
	r := c.report(d, replay)
	if r {
		// a violation is on record even if the process dies before Finish (time budget, fatal error)
		c.writeStats(true)
	}
	c.mu.Lock()
	abort := c.hangs >= envInt("VERIF_MAXHANGS", 3) && c.Replay == ""
	c.mu.Unlock()
	if abort {
		// Every call that does not return costs the whole guard and leaves a goroutine (and
		// its locks) behind: after a few of them the verdict is settled, the rest of the
		// exploration would only run into the same wall until the time budget is gone.
		c.Extra("aborted", "exploration stopped after repeated calls that did not return")
		c.Finish()
		os.Exit(1)
	}
	return r
}

func (c *Ctx) report(d *Deviation, replay any) bool {
	if k := c.KnownFor(d); k != nil {
		c.mu.Lock()
		c.knownHits[k.ID]++
		m := c.knownSigs[k.ID]
		if m == nil {
			m = map[string]struct{}{}
			c.knownSigs[k.ID] = m
		}
		if len(m) < 10000 {
			m[d.Sig()] = struct{}{}
		}
		c.mu.Unlock()
		return false
	}
	sig := d.Sig()
	c.mu.Lock()
	defer c.mu.Unlock()
	if c.violSigs[sig] {
		return true
	}
	c.violSigs[sig] = true
	path := c.Replay
	if path == "" {
		sum := sha256.Sum256([]byte(sig))
		dir := filepath.Join(Root(), "replays", c.Prop, "found")
		_ = os.MkdirAll(dir, 0o755)
		path = filepath.Join(dir, "v-"+hex.EncodeToString(sum[:6])+".json")
		wrap := map[string]any{"property": c.Prop, "sig": sig, "detail": d.Detail, "fields": d.Fields, "case": replay}
		b, _ := json.MarshalIndent(wrap, "", " ")
		_ = os.WriteFile(path, b, 0o644)
	}
	if len(c.violations) < envInt("VERIF_MAXVIOL", 50) {
		c.violations = append(c.violations, Violation{Sig: sig, Detail: d.Detail, Replay: path})
	}
	if d.Fields["observed"] == "HANG" || d.Fields["verdict"] == "HANG" || strings.Contains(d.Detail, "HANG") {
		c.hangs++
	}
	return true
}

// WitnessLive marks an open known finding whose witness still reproduces.
func (c *Ctx) WitnessLive(id string) {
	c.mu.Lock()
	c.knownLive[id] = true
	c.mu.Unlock()
}

// recTB lets rapid.Check report a failure without failing the Go test, so the
// remaining sub-checks still run and the verdict is taken from Ctx.
type recTB struct {
	mu     sync.Mutex
	name   string
	failed bool
	logs   []string
}

func (r *recTB) Helper()      {}
func (r *recTB) Name() string { return r.name }
func (r *recTB) Logf(f string, a ...any) {
	r.mu.Lock()
	if len(r.logs) < 400 {
		r.logs = append(r.logs, fmt.Sprintf(f, a...))
	}
	r.mu.Unlock()
}
func (r *recTB) Log(a ...any)              { r.Logf("%s", fmt.Sprint(a...)) }
func (r *recTB) Skipf(f string, a ...any)  {}
func (r *recTB) Skip(a ...any)             {}
func (r *recTB) SkipNow()                  {}
func (r *recTB) Errorf(f string, a ...any) { r.Logf(f, a...); r.failed = true }
func (r *recTB) Error(a ...any)            { r.Log(a...); r.failed = true }
func (r *recTB) Fatalf(f string, a ...any) { r.Logf(f, a...); r.failed = true }
func (r *recTB) Fatal(a ...any)            { r.Log(a...); r.failed = true }
func (r *recTB) FailNow()                  { r.failed = true }
func (r *recTB) Fail()                     { r.failed = true }
func (r *recTB) Failed() bool              { return r.failed }

// Failure is what a property returns (through Fail) when it found a
// deviation; the last one seen by rapid is the shrunk one.
type Failure struct {
	Dev    *Deviation
	Replay any
}

// Prop is a rapid property that returns a failure instead of calling Fatal.
type Prop func(t *rapid.T) *Failure

var rapidMu sync.Mutex

// Rapid runs prop for the given number of cases with the shard's seed. The
// first unlisted deviation is shrunk by rapid and reported; cases that hit an
// open known finding are counted and do not stop the search.
func (c *Ctx) Rapid(name string, checks int, prop Prop) {
	if checks <= 0 {
		return
	}
	rapidMu.Lock()
	defer rapidMu.Unlock()
	_ = os.RemoveAll("testdata/rapid")
	var last *Failure
	wrapped := func(t *rapid.T) {
		f := prop(t)
		if f == nil {
			return
		}
		if k := c.KnownFor(f.Dev); k != nil {
			c.Report(f.Dev, nil)
			return
		}
		last = f
		t.Fatalf("deviation %s: %s", f.Dev.Sig(), f.Dev.Detail)
	}
	setRapidFlags(checks, c.RapidSeed(name))
	tb := &recTB{name: c.Prop + "/" + name}
	func() {
		defer func() {
			if p := recover(); p != nil {
				tb.failed = true
				tb.Logf("panic in rapid driver: %v", p)
			}
		}()
		rapid.Check(tb, wrapped)
	}()
	c.mu.Lock()
	c.subChecks[name] += int64(checks)
	c.mu.Unlock()
	if tb.failed {
		if last != nil {
			c.Report(last.Dev, last.Replay)
		} else {
			// A failure that did not come from a deviation: generator or
			// harness problem (rapid health check, panic in the harness).
			c.Inconclusive("rapid sub-check " + name + " failed without a deviation: " + strings.Join(tb.logs, " / "))
		}
	}
	_ = os.RemoveAll("testdata/rapid")
}

// Finish writes the shard statistics and fails the Go test on violations.
func (c *Ctx) Finish() {
	c.writeStats(false)
	c.mu.Lock()
	defer c.mu.Unlock()
	for _, v := range c.violations {
		c.T.Logf("violation: %s (%s) replay=%s", v.Sig, v.Detail, v.Replay)
	}
	for _, s := range c.inconcl {
		c.T.Logf("inconclusive: %s", s)
	}
	if len(c.violations) > 0 {
		c.T.Fail()
	}
}

// writeStats writes the shard's statistics file (partial: a checkpoint taken when a violation is
// recorded; the driver treats a shard that died after a checkpoint as what it was: a violation
// found, exploration unfinished).
func (c *Ctx) writeStats(partial bool) {
	c.mu.Lock()
	defer c.mu.Unlock()
	lab := map[string]int64{}
	for k, v := range c.labels {
		lab[k] = v
	}
	nt := make([]string, 0, len(c.nontrivial))
	for h := range c.nontrivial {
		nt = append(nt, strconv.FormatUint(h, 36))
	}
	ks := map[string]int{}
	for id, m := range c.knownSigs {
		ks[id] = len(m)
	}
	live := []map[string]string{}
	for _, k := range c.known {
		if k.Status == "open" && (c.knownLive[k.ID] || c.knownHits[k.ID] > 0) {
			live = append(live, map[string]string{"id": k.ID, "what": k.What})
		}
	}
	out := map[string]any{
		"property": c.Prop, "tier": c.Tier, "seed": c.Seed, "shard": c.Shard,
		"evaluations": c.evals, "labels": lab, "nontrivial": nt, "samples": c.samples,
		"known_hits": c.knownHits, "known_distinct_sigs": ks, "known_live": live,
		"excluded_by_known": c.excluded, "violations": c.violations, "inconclusive": c.inconcl,
		"extra": c.extra, "sub_checks": c.subChecks, "wall_s": time.Since(c.start).Seconds(),
		"partial": partial,
	}
	if c.exhaustive != nil {
		out["exhaustive"] = *c.exhaustive
	}
	if c.OutDir != "" {
		b, err := json.Marshal(out)
		if err == nil {
			tmp := filepath.Join(c.OutDir, fmt.Sprintf("shard-%d.json.tmp", c.Shard))
			if err = os.WriteFile(tmp, b, 0o644); err == nil {
				err = os.Rename(tmp, filepath.Join(c.OutDir, fmt.Sprintf("shard-%d.json", c.Shard)))
			}
		}
		if err != nil && !partial {
			c.T.Logf("cannot write shard stats: %v", err)
		}
	}
}

// LoadReplay reads a replay file; the case is under "case" when the file was
// written by Report, or the file itself otherwise.
func LoadReplay(path string, into any) error {
	b, err := os.ReadFile(path)
	if err != nil {
		return err
	}
	var wrap struct {
		Case json.RawMessage `json:"case"`
	}
	if err := json.Unmarshal(b, &wrap); err == nil && len(wrap.Case) > 0 {
		return json.Unmarshal(wrap.Case, into)
	}
	return json.Unmarshal(b, into)
}

// ReplayFiles lists the committed replay cases of the property (not those
// under found/, which are this run's own output).
func (c *Ctx) ReplayFiles() []string {
	if c.Replay != "" {
		return []string{c.Replay}
	}
	m, _ := filepath.Glob(filepath.Join(Root(), "replays", c.Prop, "*.json"))
	sort.Strings(m)
	return m
}

// MatchesSituation is Matches restricted to the constraints present in k.Match
// (used for steering with a copy of the entry whose outcome fields were removed).
func (k *Known) MatchesSituation(d *Deviation) bool {
	for f := range k.Match {
		re := k.re[f]
		if re == nil {
			continue
		}
		if !re.MatchString(d.Fields[f]) {
			return false
		}
	}
	return true
}
