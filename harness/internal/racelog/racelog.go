// Package racelog reads what the race detector wrote for this process (the
// driver sets GORACE=log_path=... halt_on_error=0) and reduces every report
// to the unordered pair of innermost avfs functions of its two stacks.
package racelog

import (
	"fmt"
	"os"
	"regexp"
	"sort"
	"strings"
)

// Path is the log file of this process ("" when the binary was not started by the driver
// of a race-enabled check).
func Path() string {
	for _, kv := range strings.Fields(os.Getenv("GORACE")) {
		if strings.HasPrefix(kv, "log_path=") {
			return fmt.Sprintf("%s.%d", kv[len("log_path="):], os.Getpid())
		}
	}
	return ""
}

// Size is the current length of the log.
func Size() int64 {
	fi, err := os.Stat(Path())
	if err != nil {
		return 0
	}
	return fi.Size()
}

// Since returns the distinct pairs reported after the log had the given size.
func Since(before int64) []string {
	after := Size()
	if after <= before {
		return nil
	}
	b, err := os.ReadFile(Path())
	if err != nil || int64(len(b)) < after {
		return nil
	}
	seen := map[string]bool{}
	var out []string
	for _, p := range Parse(string(b[before:after])) {
		if !seen[p] {
			seen[p] = true
			out = append(out, p)
		}
	}
	return out
}

var frameRe = regexp.MustCompile(`^\s+(github\.com/avfs/avfs[^\s(]*(?:\([^)]*\))?[^\s(]*)\(`)

// Parse extracts, from race detector output, the unordered pairs of innermost
// avfs functions of every report.
func Parse(txt string) []string {
	var out []string
	for _, rep := range strings.Split(txt, "WARNING: DATA RACE")[1:] {
		var stacks [][]string
		var cur []string
		for _, line := range strings.Split(rep, "\n") {
			t := strings.TrimSpace(line)
			if strings.HasSuffix(t, ":") && (strings.Contains(t, " by goroutine ") || strings.Contains(t, " by main goroutine")) {
				if cur != nil {
					stacks = append(stacks, cur)
				}
				cur = []string{}
				continue
			}
			if strings.HasPrefix(t, "Goroutine ") && strings.Contains(t, "created at") {
				if cur != nil {
					stacks = append(stacks, cur)
					cur = nil
				}
				break
			}
			if cur != nil {
				if m := frameRe.FindStringSubmatch(line); m != nil {
					cur = append(cur, m[1])
				}
			}
		}
		if cur != nil {
			stacks = append(stacks, cur)
		}
		var fns []string
		for _, s := range stacks {
			if len(s) > 0 {
				fns = append(fns, strings.TrimPrefix(s[0], "github.com/avfs/avfs/"))
			}
		}
		if len(fns) >= 2 {
			pair := []string{fns[0], fns[1]}
			sort.Strings(pair)
			out = append(out, pair[0]+" <-> "+pair[1])
		} else if len(fns) == 1 {
			out = append(out, fns[0]+" <-> ?")
		}
	}
	return out
}
