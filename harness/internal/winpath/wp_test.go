package winpath

import "testing"

func TestW(t *testing.T) {
	for _, c := range [][2]string{{`C:\a\..\b`, `C:\b`}, {`c:/a//b/.`, `c:\a\b`}, {`\\host\share\x\..`, `\\host\share\`}, {`a/../..`, `..`}} {
		if g := Clean(c[0]); g != c[1] {
			t.Errorf("Clean(%q)=%q want %q", c[0], g, c[1])
		}
	}
	if !IsAbs(`C:\a`) || IsAbs(`\a`) || IsAbs(`C:a`) {
		t.Error("isabs")
	}
	if VolumeName(`\\?\C:\x`) != `\\?\C:` {
		t.Errorf("vol %q", VolumeName(`\\?\C:\x`))
	}
	if Join(`C:`, `a`) != `C:a` {
		t.Error(Join(`C:`, `a`))
	}
	if string(Separator) != `\` {
		t.Error("sep")
	}
	m, _ := Match(`a\*`, `a\b`)
	if !m {
		t.Error("match")
	}
	if r, e := Rel(`C:\a`, `C:\a\b\c`); e != nil || r != `b\c` {
		t.Error(r, e)
	}
}
