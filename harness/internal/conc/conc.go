//go:build verif

// Package conc builds and runs concurrent programs (a sequential prefix and
// 2-3 workers x 1-2 calls on overlapping names) on one shared emulated file
// system under the deterministic scheduler, and judges them: C06 by
// linearizability against the sequential behaviour of the same file system,
// C07 by "every call returns" (deadlock / panic / budget), C05 by the
// structural invariants on the final state.
package conc

import (
	"errors"
	"fmt"
	"os"
	"sort"
	"strings"

	"github.com/avfs/avfs"

	"verif/harness/internal/fsx"
	"verif/harness/internal/sched"
	"verif/harness/internal/world"
)

// Program is a replayable concurrent case.
type Program struct {
	FS      string     `json:"fs"`
	Prefix  []fsx.Op   `json:"prefix"`
	Workers [][]fsx.Op `json:"workers"`
	Trace   []int      `json:"trace,omitempty"` // schedule (choice indices), for replay
}

func (p Program) String() string {
	var parts []string
	for i, w := range p.Workers {
		var ops []string
		for _, o := range w {
			ops = append(ops, o.String())
		}
		parts = append(parts, fmt.Sprintf("w%d: %s", i, strings.Join(ops, "; ")))
	}
	return p.FS + " | " + strings.Join(parts, " || ")
}

// Kinds renders the multiset of (first) op kinds of the workers.
func (p Program) Kinds() string {
	var ks []string
	for _, w := range p.Workers {
		var k []string
		for _, o := range w {
			if o.K == "FWrite" || o.K == "FClose" {
				continue
			}
			k = append(k, o.K)
		}
		ks = append(ks, strings.Join(k, ","))
	}
	sort.Strings(ks)
	return strings.Join(ks, "+")
}

// Instance is one fresh file system with per-worker views.
type Instance struct {
	V     avfs.VFS
	Views []avfs.VFS
	Roots []string
}

// NewInstance creates the file system, runs the prefix and makes the views:
// every MemFS worker gets its own Sub("/") view, OrefaFS workers share the
// instance (the documented concurrent use).
func NewInstance(kind string, prefix []fsx.Op, nworkers int) (*Instance, error) {
	v, _ := world.NewVFS(kind)
	_ = v.SetUMask(0o022)
	if err := v.Mkdir("/w", 0o755); err != nil {
		return nil, err
	}
	_ = v.Chdir("/")
	r := fsx.NewRunner(v)
	for _, o := range prefix {
		if out := r.Do(o); out.Err != "ok" {
			return nil, fmt.Errorf("prefix %s: %s", o, out)
		}
	}
	r.CloseAll()
	in := &Instance{V: v, Roots: []string{"/"}}
	if kind == "OrefaFS" {
		in.Roots = []string{"/home", "/root", "/tmp", "/w"}
	}
	for i := 0; i < nworkers; i++ {
		switch kind {
		case "MemFS":
			sub, err := v.Sub("/")
			if err != nil {
				return nil, err
			}
			in.Views = append(in.Views, sub)
		default:
			in.Views = append(in.Views, v)
		}
	}
	return in, nil
}

// Snapshot renders the final tree.
func (in *Instance) Snapshot() string {
	return fsx.Snapshot(in.V, fsx.SnapOpts{Roots: in.Roots, NoOwner: true}).String()
}

// Result of one execution.
type Result struct {
	Verdict   sched.Verdict
	Outcomes  [][]string // per worker, per op
	Snap      string     // final snapshot (only when every worker finished)
	Invariant []string   // structural invariant violations of the final state
}

// Key is what linearizability compares.
func (r *Result) Key() string {
	var parts []string
	for _, w := range r.Outcomes {
		parts = append(parts, strings.Join(w, ","))
	}
	return strings.Join(parts, " | ") + "\n" + r.Snap
}

// Invariants is set by the packages that inject the internal walkers.
var Invariants func(v avfs.VFS) []string

// Pending is a prepared execution: instance and scheduler built, not yet run.
type Pending struct {
	S   *sched.Sched
	in  *Instance
	res *Result
	Err error
}

// Prepare builds a fresh instance and the scheduler for the program.
func Prepare(p Program) *Pending {
	in, err := NewInstance(p.FS, p.Prefix, len(p.Workers))
	if err != nil {
		return &Pending{S: sched.New(), Err: err, res: &Result{}}
	}
	res := &Result{Outcomes: make([][]string, len(p.Workers))}
	var progs []func()
	for i := range p.Workers {
		i := i
		r := fsx.NewRunner(in.Views[i])
		r.NoOwner = true
		r.Guard = 0 // the scheduler decides deadlocks; the op must stay on the worker goroutine
		res.Outcomes[i] = make([]string, len(p.Workers[i]))
		progs = append(progs, func() {
			for j, o := range p.Workers[i] {
				res.Outcomes[i][j] = "unfinished"
				res.Outcomes[i][j] = r.Do(o).String()
			}
		})
	}
	return &Pending{S: sched.New(progs...), in: in, res: res}
}

// Finish completes the result after the scheduler ran.
func (pe *Pending) Finish(v sched.Verdict) *Result {
	pe.res.Verdict = v
	if pe.in != nil && (v.Kind == "ok" || v.Kind == "panic") {
		pe.res.Snap = pe.in.Snapshot()
		if Invariants != nil {
			pe.res.Invariant = Invariants(pe.in.V)
		}
	}
	return pe.res
}

// Execute runs the program under the chooser on a fresh instance.
func Execute(p Program, choose sched.Chooser) (*Result, error) {
	pe := Prepare(p)
	if pe.Err != nil {
		return nil, pe.Err
	}
	return pe.Finish(pe.S.Run(choose)), nil
}

// ErrHang: a call of the sequential reference run did not return.
var ErrHang = errors.New("call does not return")

// Sequential returns the set of keys (outcomes + final tree) of every
// interleaving of the workers' calls that respects program order, each run
// sequentially on a fresh instance: the specification of C06.
func Sequential(p Program) (map[string]bool, error) {
	keys := map[string]bool{}
	idx := make([]int, len(p.Workers))
	var order []int
	total := 0
	for _, w := range p.Workers {
		total += len(w)
	}
	var rec func() error
	rec = func() error {
		if len(order) == total {
			in, err := NewInstance(p.FS, p.Prefix, len(p.Workers))
			if err != nil {
				return err
			}
			outs := make([][]string, len(p.Workers))
			runners := make([]*fsx.Runner, len(p.Workers))
			for i := range runners {
				runners[i] = fsx.NewRunner(in.Views[i])
				runners[i].NoOwner = true
				// no scheduler is active here: a call that blocks on its own is a C07 matter,
				// and the guard keeps it from wedging this check
				runners[i].Guard = fsx.DefaultGuard
				outs[i] = make([]string, len(p.Workers[i]))
			}
			pos := make([]int, len(p.Workers))
			for _, w := range order {
				out := runners[w].Do(p.Workers[w][pos[w]])
				if out.Err == "HANG" {
					return fmt.Errorf("%w: %s %s run alone (order %v of %s)", ErrHang, p.FS, p.Workers[w][pos[w]], order, p)
				}
				outs[w][pos[w]] = out.String()
				pos[w]++
			}
			r := &Result{Outcomes: outs, Snap: in.Snapshot()}
			keys[r.Key()] = true
			return nil
		}
		for w := range p.Workers {
			if idx[w] < len(p.Workers[w]) {
				idx[w]++
				order = append(order, w)
				if err := rec(); err != nil {
					return err
				}
				order = order[:len(order)-1]
				idx[w]--
			}
		}
		return nil
	}
	err := rec()
	return keys, err
}

// ---- program generation

// Paths of the concurrent universe: two directories and overlapping names.
var Paths = []string{"/w/a", "/w/b", "/w/a/x", "/w/b/x", "/w/a/y", "/w"}

// Prefixes are the start trees (all ops succeed).
func Prefixes(kind string) map[string][]fsx.Op {
	md := func(p string) fsx.Op { return fsx.Op{K: "Mkdir", P: p, Perm: 0o755} }
	wf := func(p, d string) fsx.Op { return fsx.Op{K: "WriteFile", P: p, Data: d, Perm: 0o644} }
	m := map[string][]fsx.Op{
		"dirs":  {md("/w/a"), md("/w/b")},
		"files": {md("/w/a"), md("/w/b"), wf("/w/a/x", "AX"), wf("/w/b/x", "BX")},
		"deep":  {md("/w/a"), md("/w/a/x"), wf("/w/a/x/f", "F"), md("/w/b")},
		"links": {md("/w/a"), md("/w/b"), wf("/w/a/x", "AX"), {K: "Link", P: "/w/a/x", P2: "/w/b/x"}},
		// a file with two names next to another file: a rename that replaces the other file while it is being removed
		"links3": {md("/w/a"), md("/w/b"), wf("/w/a/x", "AX"), {K: "Link", P: "/w/a/x", P2: "/w/b/x"}, wf("/w/a/y", "AY")},
	}
	if kind == "MemFS" {
		m["sym"] = []fsx.Op{md("/w/a"), md("/w/b"), wf("/w/a/x", "AX"), {K: "Symlink", P: "/w/a", P2: "/w/b/x"}}
	}
	return m
}

// Calls enumerates the call templates (each a short op group) over Paths.
func Calls(kind string, reduced bool) [][]fsx.Op {
	var r [][]fsx.Op
	one := func(o fsx.Op) { r = append(r, []fsx.Op{o}) }
	paths := Paths
	for _, p := range paths {
		one(fsx.Op{K: "Mkdir", P: p, Perm: 0o755})
		one(fsx.Op{K: "Remove", P: p})
		one(fsx.Op{K: "RemoveAll", P: p})
		r = append(r, []fsx.Op{{K: "Open", P: p, Flag: os.O_WRONLY | os.O_CREATE | os.O_EXCL, Perm: 0o644, H: 0}, {K: "FWrite", H: 0, Data: "E"}, {K: "FClose", H: 0}})
		// creation does not depend on the access mode: O_RDONLY|O_CREATE|O_EXCL creates as well
		r = append(r, []fsx.Op{{K: "Open", P: p, Flag: os.O_RDONLY | os.O_CREATE | os.O_EXCL, Perm: 0o644, H: 0}, {K: "FClose", H: 0}})
		if !reduced {
			r = append(r, []fsx.Op{{K: "Open", P: p, Flag: os.O_RDONLY | os.O_CREATE, Perm: 0o600, H: 0}, {K: "FClose", H: 0}})
			r = append(r, []fsx.Op{{K: "Open", P: p, Flag: os.O_RDONLY | os.O_TRUNC, H: 0}, {K: "FClose", H: 0}})
		}
		// composites of package os (WriteFile, ReadDir, ReadFile) are not atomic there
		// either: they are issued as the primitive calls they consist of
		r = append(r, []fsx.Op{{K: "Open", P: p, Flag: os.O_WRONLY | os.O_CREATE | os.O_TRUNC, Perm: 0o644, H: 0}, {K: "FWrite", H: 0, Data: "W"}, {K: "FClose", H: 0}})
		one(fsx.Op{K: "Stat", P: p})
		if p == "/w/a" || p == "/w/b/x" {
			// the working directory belongs to the worker's own view; resolving it reads the shared tree
			r = append(r, []fsx.Op{{K: "Chdir", P: p}, {K: "Getwd"}})
		}
		if reduced && (p == "/w" || p == "/w/a") {
			// an open directory being read locks itself, then each entry
			r = append(r, []fsx.Op{{K: "Open", P: p, Flag: os.O_RDONLY, H: 1}, {K: "FReadDir", H: 1, N: -1}, {K: "FClose", H: 1}})
		}
		if !reduced {
			one(fsx.Op{K: "MkdirAll", P: p + "/m/n", Perm: 0o755})
			one(fsx.Op{K: "Truncate", P: p, Size: 1})
			r = append(r, []fsx.Op{{K: "Open", P: p, Flag: os.O_RDONLY, H: 1}, {K: "FReadDir", H: 1, N: -1}, {K: "FClose", H: 1}})
			one(fsx.Op{K: "Chmod", P: p, Perm: 0o700})
			r = append(r, []fsx.Op{{K: "Open", P: p, Flag: os.O_RDONLY, H: 1}, {K: "FRead", H: 1, N: 8}, {K: "FClose", H: 1}})
		}
	}
	for _, p := range paths {
		for _, q := range paths {
			if p == q {
				continue
			}
			one(fsx.Op{K: "Rename", P: p, P2: q})
			one(fsx.Op{K: "Link", P: p, P2: q})
			if kind == "MemFS" && !reduced {
				one(fsx.Op{K: "Symlink", P: p, P2: q})
			}
		}
	}
	return r
}
