// C09 - a read-only file system never lets the underlying file system change.
package c09

import (
	"fmt"
	"github.com/avfs/avfs/idm/memidm"
	"github.com/avfs/avfs/vfs/memfs"
	"github.com/avfs/avfs/vfs/orefafs"
	"io/fs"
	"math"
	"os"
	"sort"
	"strings"
	"testing"

	"github.com/avfs/avfs"
	"github.com/avfs/avfs/vfs/rofs"
	"pgregory.net/rapid"

	"verif/harness/internal/fsx"
	"verif/harness/internal/gen"
	"verif/harness/internal/vt"
	"verif/harness/internal/world"
)

// Case is a replayable C09 case.
type Case struct {
	FS     string   `json:"fs"`
	View   string   `json:"view"` // "" | sub directory (MemFS: ops go through ro.Sub(view))
	Prefix []fsx.Op `json:"prefix"`
	Ops    []fsx.Op `json:"ops"`
}

var mutating = map[string]bool{"Mkdir": true, "MkdirAll": true, "Create": true, "WriteFile": true, "CreateTemp": true, "MkdirTemp": true, "Remove": true, "RemoveAll": true,
	"Rename": true, "Link": true, "Symlink": true, "Truncate": true, "Chmod": true, "Chown": true, "Lchown": true, "Chtimes": true,
	"FWrite": true, "FWriteAt": true, "FWriteString": true, "FTruncate": true, "FChmod": true, "FChown": true}

func isMutating(o fsx.Op) bool {
	if o.K == "Open" {
		return o.Flag != os.O_RDONLY
	}
	return mutating[o.K]
}

// neither asserted as refused nor compared with the base
var unjudged = map[string]bool{"FSync": true, "RenameTemp": true}

type inst struct {
	kind    string
	x       avfs.VFS // the underlying file system
	ro      fsx.FS   // what the calls go through
	cmp     fsx.FS   // where read-only calls are mirrored (the base, or its Sub view)
	rro     *fsx.Runner
	rcmp    *fsx.Runner
	rbase   *fsx.Runner // "Base:" steps: the owner of the base changes it directly
	roots   []string
	before  fsx.Snap
	cmpOpen map[int]bool
	shared  bool // ro and cmp share the working directory (no Sub view in between)
	win     bool // the base emulates Windows
}

// winView lets the snapshot walk a Windows-typed base with /-paths.
type winView struct{ avfs.VFS }

func wconv(p string) string { return fsx.Retarget(fsx.Op{P: p}, true).P }

func (v winView) Lstat(p string) (fs.FileInfo, error)     { return v.VFS.Lstat(wconv(p)) }
func (v winView) Stat(p string) (fs.FileInfo, error)      { return v.VFS.Stat(wconv(p)) }
func (v winView) ReadDir(p string) ([]fs.DirEntry, error) { return v.VFS.ReadDir(wconv(p)) }
func (v winView) ReadFile(p string) ([]byte, error)       { return v.VFS.ReadFile(wconv(p)) }
func (v winView) Readlink(p string) (string, error)       { return v.VFS.Readlink(wconv(p)) }

func newInst(kind, view string, prefix []fsx.Op) (*inst, error) {
	win := strings.HasSuffix(kind, "-win")
	var x avfs.VFS
	if win {
		// a base that emulates Windows (volume C:, backslashes, Windows error values): the ops
		// keep their /-paths and are rewritten on the way in
		if strings.HasPrefix(kind, "OrefaFS") {
			x = orefafs.NewWithOptions(&orefafs.Options{OSType: avfs.OsWindows})
		} else {
			x = memfs.NewWithOptions(&memfs.Options{OSType: avfs.OsWindows, Idm: memidm.NewWithOptions(&memidm.Options{OSType: avfs.OsWindows})})
		}
	} else {
		x, _ = world.NewVFS(kind)
	}
	root := "/"
	if win {
		root = `C:\`
	}
	_ = x.SetUMask(0o022)
	_ = x.Mkdir(fsx.Retarget(fsx.Op{P: "/w"}, win).P, 0o755)
	_ = x.Chdir(root)
	r := fsx.NewRunner(x)
	for _, o := range prefix {
		_ = r.Do(fsx.Retarget(o, win))
	}
	r.CloseAll()
	_ = x.Chdir(root)
	in := &inst{kind: kind, x: x, roots: []string{"/"}, cmpOpen: map[int]bool{}, shared: view == "", win: win}
	if strings.HasPrefix(kind, "OrefaFS") {
		in.roots = []string{"/a", "/b", "/c", "/home", "/root", "/tmp", "/w"}
	}
	if win {
		view = fsx.Retarget(fsx.Op{P: view}, view != "").P
	}
	ro := rofs.New(x)
	in.ro, in.cmp = ro, x
	if view != "" {
		sub, err := ro.Sub(view)
		if err != nil {
			return nil, err
		}
		xs, err := x.Sub(view)
		if err != nil {
			return nil, err
		}
		in.ro, in.cmp = sub, xs
	}
	in.rro, in.rcmp = fsx.NewRunner(in.ro), fsx.NewRunner(in.cmp)
	in.rro.NoOwner, in.rcmp.NoOwner = strings.HasPrefix(kind, "OrefaFS"), strings.HasPrefix(kind, "OrefaFS")
	in.before = in.snap()
	return in, nil
}

func (in *inst) snap() fsx.Snap {
	var v fsx.FS = in.x
	if in.win {
		v = winView{in.x}
	}
	return fsx.Snapshot(v, fsx.SnapOpts{Roots: in.roots, Full: true, NoOwner: strings.HasPrefix(in.kind, "OrefaFS")})
}

func (in *inst) step(c *vt.Ctx, o fsx.Op) *vt.Deviation {
	c.Eval(1)
	if strings.HasPrefix(o.K, "Base:") {
		// not a call through the read-only file system: the base changes under it, and what is
		// read through the wrapper afterwards must be the new state
		b := o
		b.K = strings.TrimPrefix(o.K, "Base:")
		if in.rbase == nil {
			in.rbase = fsx.NewRunner(in.x)
		}
		_ = in.rbase.Do(fsx.Retarget(b, in.win))
		in.before = in.snap()
		return nil
	}
	o = fsx.Retarget(o, in.win)
	out := in.rro.Do(o)
	mk := func(clause, detail string) *vt.Deviation {
		d := vt.Dev("prop", "C09", "fs", in.kind, "op", o.K, "clause", clause)
		if o.K == "Open" {
			d.Fields["params"] = fsx.FlagString(o.Flag)
		}
		d.Detail = fmt.Sprintf("RoFS(%s) %s -> %s: %s", in.kind, o, out, detail)
		return d
	}
	if out.Err == "PANIC" && out.Val != "nil-handle" { // File.Name on a nil handle is the sanctioned panic
		return mk("panic", out.Note)
	}
	after := in.snap()
	if p, f, l, r, same := fsx.Diff(in.before, after); !same {
		in.before = after
		return mk("base-changed", fmt.Sprintf("the underlying file system changed at %s (%s): %q -> %q", p, f, l, r))
	}
	// which slots hold a mirrored handle on the comparison side
	if o.K == "Open" || o.K == "Create" || o.K == "CreateTemp" {
		in.cmpOpen[o.H] = o.K == "Open" && !isMutating(o)
	}
	switch {
	case unjudged[o.K]:
	case (o.K == "Chdir" || o.K == "FChdir") && in.shared:
		// the wrapper delegates the working directory to the base: already applied
	case strings.HasPrefix(o.K, "F") && !in.cmpOpen[o.H] && !isMutating(o):
		// the handle came from a refused call: there is no handle to mirror
	case isMutating(o):
		// a nil handle (failed open) answers ErrInvalid like os: also a refusal
		if out.Err != "EACCES" && out.Err != "EPERM" && out.Err != "invalid" &&
			!(in.win && (out.Err == "win:5" || out.Err == "win:1314" || out.Err == "win:536871042")) {
			// ERROR_ACCESS_DENIED, ERROR_PRIVILEGE_NOT_HELD, and avfs's Windows value for "operation not permitted"
			return mk("not-refused", "a mutating call must fail with a permission-class error")
		}
	default:
		ref := in.rcmp.Do(o)
		if ref.String() != out.String() {
			return mk("read-differs", fmt.Sprintf("the same call on the underlying file system returns %s", ref))
		}
	}
	return nil
}

// parity: path helpers and accessors through the read-only file system answer as the base does.
func (in *inst) parity() *vt.Deviation {
	a, ok1 := in.ro.(avfs.VFS)
	b, ok2 := in.cmp.(avfs.VFS)
	if !ok1 || !ok2 {
		return nil
	}
	// who the underlying file system acts as is part of its state: RoFS refuses SetUser/SetUserByName
	if u, err := in.x.Idm().AddUser("c09user", in.x.Idm().AdminGroup().Name()); err == nil && u != nil {
		before := in.x.User().Name()
		e1, e2 := a.SetUser(u), a.SetUserByName("c09user")
		if after := in.x.User().Name(); after != before || e1 == nil || e2 == nil {
			_ = in.x.SetUser(in.x.Idm().AdminUser())
			d := vt.Dev("prop", "C09", "fs", in.kind, "op", "SetUser", "clause", "base-changed")
			d.Detail = fmt.Sprintf("RoFS(%s) SetUser -> %v, SetUserByName -> %v: the current user of the underlying file system was %q and is %q", in.kind, e1, e2, before, after)
			return d
		}
		_ = in.x.Idm().DelUser("c09user")
	}
	if diff := fsx.LexicalParity(a, b, parityStrs); diff != "" {
		d := vt.Dev("prop", "C09", "fs", in.kind, "op", "helpers", "clause", "read-differs")
		d.Detail = fmt.Sprintf("RoFS(%s) %s", in.kind, diff)
		return d
	}
	return nil
}

var parityStrs = []string{"", ".", "..", "a", "/w/a", "../x", "/", "a/b/../c", "[a", "*", "/w//a/", "w"}

func (in *inst) close() {
	in.rro.CloseAll()
	in.rcmp.CloseAll()
}

func run(c *vt.Ctx, cs Case) *vt.Deviation {
	in, err := newInst(cs.FS, cs.View, cs.Prefix)
	if err != nil {
		c.Inconclusive("instance: " + err.Error())
		return nil
	}
	defer in.close()
	for _, o := range cs.Ops {
		if dev := in.step(c, o); dev != nil {
			return dev
		}
	}
	return nil
}

var handleOps = []string{"FRead", "FReadAt", "FWrite", "FWriteAt", "FWriteString", "FSeek", "FTruncate", "FStat", "FSync", "FChmod", "FChown", "FClose", "FReadDir", "FReaddirnames", "FName"}

func drawHandleOp(t *rapid.T) fsx.Op {
	k := rapid.SampledFrom(handleOps).Draw(t, "hk")
	o := fsx.Op{K: k, H: rapid.IntRange(0, 1).Draw(t, "h")}
	switch k {
	case "FRead", "FReadAt":
		o.N = rapid.SampledFrom([]int{0, 1, 8}).Draw(t, "n")
		o.Off = rapid.SampledFrom([]int64{-1, 0, 1, 5}).Draw(t, "off")
	case "FWrite", "FWriteAt", "FWriteString":
		o.Data = rapid.SampledFrom([]string{"", "w"}).Draw(t, "data")
		// refused whatever the arguments: a mutating call on a read-only handle is a permission
		// matter before it is an argument matter
		o.Off = rapid.SampledFrom([]int64{0, 1, 5, -1, 1 << 40, math.MaxInt64}).Draw(t, "off")
	case "FSeek":
		o.Off = rapid.SampledFrom([]int64{-1, 0, 1, 5}).Draw(t, "off")
		o.Whence = rapid.IntRange(0, 2).Draw(t, "whence")
	case "FTruncate":
		o.Size = rapid.SampledFrom([]int64{0, 1, 100, -1, math.MaxInt64}).Draw(t, "size")
	case "FChmod":
		o.Perm = rapid.SampledFrom([]uint32{0o600, 0o7777, 0}).Draw(t, "perm")
	case "FChown":
		o.Uid, o.Gid = rapid.SampledFrom([]int{-1, 0, 42}).Draw(t, "uid"), rapid.SampledFrom([]int{-1, 0, 42}).Draw(t, "gid")
	case "FReadDir", "FReaddirnames":
		o.N = rapid.SampledFrom([]int{-1, 1, 2}).Draw(t, "n")
	}
	return o
}

func TestCheck(t *testing.T) {
	c := vt.New(t, "C09")
	defer c.Finish()
	for _, f := range c.ReplayFiles() {
		var cs Case
		if err := vt.LoadReplay(f, &cs); err != nil {
			c.Inconclusive("replay " + f + ": " + err.Error())
			continue
		}
		if dev := run(c, cs); dev != nil {
			if k := c.KnownFor(dev); k != nil {
				c.WitnessLive(k.ID)
			}
			c.Report(dev, cs)
		}
	}
	if c.Replay != "" {
		return
	}
	for _, kind := range []string{"MemFS", "OrefaFS", "MemFS-win", "OrefaFS-win"} {
		kind := kind
		mem := strings.HasPrefix(kind, "MemFS")
		win := strings.HasSuffix(kind, "-win")
		cfg := gen.Config{Symlinks: mem, LinkCalls: true, Root: mem, Base: "/w", NoChown: false, NoTmp: win}
		trees := cfg.StartTrees()
		var tn []string
		for n := range trees {
			tn = append(tn, n)
		}
		sort.Strings(tn) // (a run is a function of the seed, not of map order)
		// bounded-exhaustive: every instance once from every start tree, through ro and through ro.Sub("/w")
		idx := 0
		views := []string{""}
		if mem {
			views = append(views, "/w")
		}
		for _, n := range tn {
			if win && !c.Thorough() {
				break // quick tier: the Windows-typed bases get random histories only
			}
			for _, view := range views {
				vcfg := cfg
				if view != "" {
					vcfg.Base = "" // paths inside the view
				}
				for _, in := range vcfg.All(!c.Thorough(), true) {
					idx++
					if idx%c.NShards != c.Shard {
						continue
					}
					cs := Case{FS: kind, View: view, Prefix: trees[n], Ops: in}
					if dev := run(c, cs); dev != nil {
						c.Report(dev, cs)
					}
					if isMutating(in[0]) {
						c.NonTrivial(vt.Hash64(kind, view, n, in[0].String()))
					}
				}
			}
		}
		// handle life cycles: every read-only handle call before and after the base changed under the
		// handle, twice in a row, and after Close - a wrapper handle has no state of its own to answer from
		{
			dirfile := trees["dirfile"]
			muts := [][]fsx.Op{nil, {{K: "Base:WriteFile", P: "/w/a/b", Data: "0123456789", Perm: 0o644}}, {{K: "Base:Truncate", P: "/w/a/b", Size: 1}}, {{K: "Base:Chmod", P: "/w/a/b", Perm: 0o600}, {K: "Base:Chmod", P: "/w/a", Perm: 0o700}},
				{{K: "Base:WriteFile", P: "/w/a/c", Data: "new", Perm: 0o644}}, {{K: "Base:Remove", P: "/w/a/b"}}, {{K: "Base:Rename", P: "/w/a", P2: "/w/z"}}}
			xs := []fsx.Op{{K: "FRead", H: 0, N: 1}, {K: "FReadAt", H: 0, N: 8, Off: 0}, {K: "FSeek", H: 0, Off: 0, Whence: 1}, {K: "FSeek", H: 0, Off: 0, Whence: 2}, {K: "FStat", H: 0},
				{K: "FReadDir", H: 0, N: -1}, {K: "FReaddirnames", H: 0, N: -1}, {K: "FName", H: 0}}
			n := 0
			for _, target := range []string{"/w/a/b", "/w/a"} {
				for _, x := range xs {
					for _, m := range muts {
						idx++
						if idx%c.NShards != c.Shard {
							continue
						}
						ops := []fsx.Op{{K: "Open", P: target, Flag: os.O_RDONLY, H: 0}, x}
						ops = append(ops, m...)
						ops = append(ops, x, x, fsx.Op{K: "FClose", H: 0}, x, x)
						cs := Case{FS: kind, Prefix: dirfile, Ops: ops}
						n++
						if dev := run(c, cs); dev != nil {
							c.Report(dev, cs)
						}
						if m != nil {
							c.NonTrivial(vt.Hash64(kind, "lifecycle", target, x.String(), m[0].String()))
						}
					}
				}
			}
			c.Extra("handle_lifecycles_"+kind, fmt.Sprintf("%d cases (this shard): open, call, [base changes], call twice, Close, call twice - over 2 handle kinds x %d read-only handle calls x %d base changes", n, len(xs), len(muts)))
		}
		ncases := c.Pick(6000, 80000)
		if win {
			ncases = c.Pick(2500, 30000)
		}
		c.Rapid("hist-"+kind, ncases, func(t *rapid.T) *vt.Failure {
			name := rapid.SampledFrom(tn).Draw(t, "tree")
			view := rapid.SampledFrom(views).Draw(t, "view")
			vcfg := cfg
			if view != "" {
				vcfg.Base = ""
			}
			cs := Case{FS: kind, View: view, Prefix: trees[name]}
			in, err := newInst(kind, view, cs.Prefix)
			if err != nil {
				return nil // the start tree has no such directory
			}
			defer in.close()
			indirectMut, okRead := false, false
			opened := map[int]bool{}
			for n := rapid.IntRange(1, 30).Draw(t, "n"); n > 0; n-- {
				var ops []fsx.Op
				switch rapid.IntRange(0, 4).Draw(t, "what") {
				case 4: // the owner of the base changes it directly
					bcfg := cfg
					bcfg.NoChdir, bcfg.NoTemp = true, true
					for _, o := range bcfg.Draw(t) {
						o.K = "Base:" + o.K
						ops = append(ops, o)
					}
				case 0: // open a handle read-only and keep it
					h := rapid.IntRange(0, 1).Draw(t, "h")
					p := rapid.SampledFrom(vcfg.Paths()).Draw(t, "p")
					ops = []fsx.Op{{K: "Open", P: p, Flag: os.O_RDONLY, H: h}}
					opened[h] = true
				case 1:
					o := drawHandleOp(t)
					if !opened[o.H] {
						continue
					}
					ops = []fsx.Op{o}
				default:
					ops = vcfg.Draw(t)
					for _, o := range ops {
						if o.K == "Open" || o.K == "Create" || o.K == "CreateTemp" {
							opened[o.H] = true
						}
					}
				}
				for _, o := range ops {
					cs.Ops = append(cs.Ops, o)
					c.Label("op:" + o.K)
					if dev := in.step(c, o); dev != nil {
						return &vt.Failure{Dev: dev, Replay: cs}
					}
					if strings.HasPrefix(o.K, "Base:") {
						continue
					}
					if isMutating(o) && (strings.HasPrefix(o.K, "F") || view != "") {
						indirectMut = true
					}
					if !isMutating(o) && !unjudged[o.K] {
						okRead = true
					}
				}
			}
			if dev := in.parity(); dev != nil {
				return &vt.Failure{Dev: dev, Replay: cs}
			}
			if indirectMut && okRead {
				parts := []string{kind, view, name}
				for _, o := range cs.Ops {
					parts = append(parts, o.String())
				}
				c.NonTrivial(vt.Hash64(parts...))
				c.Sample("hist-"+kind+view, map[string]any{"fs": kind, "through": "rofs.New(base)" + map[bool]string{true: ".Sub(" + view + ")", false: ""}[view != ""], "ops": len(cs.Ops), "last": cs.Ops[len(cs.Ops)-1].String()})
			}
			return nil
		})
	}
	c.SetExhaustive(true)
}
