// C17 - OS-type emulation does not depend on the host.
package c17

import (
	"errors"
	"fmt"
	"io/fs"
	"path"
	"regexp"
	"sort"
	"strings"
	"testing"

	"github.com/avfs/avfs"
	"github.com/avfs/avfs/idm/memidm"
	"github.com/avfs/avfs/vfs/memfs"
	"github.com/avfs/avfs/vfs/orefafs"
	"pgregory.net/rapid"

	"verif/harness/internal/fsx"
	"verif/harness/internal/gen"
	"verif/harness/internal/vt"
)

// Case is a replayable C17 case.
type Case struct {
	Kind string   `json:"kind"` // construct | hist | volumes
	FS   string   `json:"fs"`
	Ops  []fsx.Op `json:"ops,omitempty"`
	Vol  []string `json:"vol,omitempty"` // "add:NAME" / "del:NAME" / "list"
}

func newFS(kind string, ost avfs.OSType) avfs.VFS {
	if kind == "OrefaFS" {
		return orefafs.NewWithOptions(&orefafs.Options{OSType: ost})
	}
	return memfs.NewWithOptions(&memfs.Options{OSType: ost, Idm: memidm.NewWithOptions(&memidm.Options{OSType: ost})})
}

// view presents a file system through /-paths whatever its OS type.
type view struct {
	avfs.VFS
	win bool
}

func (v view) conv(p string) string {
	if !v.win {
		return p
	}
	if strings.HasPrefix(p, "/") {
		return `C:` + strings.ReplaceAll(p, "/", `\`)
	}
	return strings.ReplaceAll(p, "/", `\`)
}
func (v view) Lstat(p string) (fs.FileInfo, error)     { return v.VFS.Lstat(v.conv(p)) }
func (v view) ReadDir(p string) ([]fs.DirEntry, error) { return v.VFS.ReadDir(v.conv(p)) }
func (v view) ReadFile(p string) ([]byte, error)       { return v.VFS.ReadFile(v.conv(p)) }
func (v view) Readlink(p string) (string, error) {
	s, err := v.VFS.Readlink(v.conv(p))
	if v.win {
		s = strings.ReplaceAll(strings.TrimPrefix(s, "C:"), `\`, "/")
	}
	return s, err
}

// normalised snapshot: names, types, contents, link counts, link targets;
// permission bits and owners dropped (documented as OS specific).
func snapshot(v avfs.VFS, kind string, win bool) fsx.Snap {
	roots := []string{"/w"}
	s := fsx.Snapshot(view{v, win}, fsx.SnapOpts{Roots: roots, NoOwner: true})
	for i := range s {
		s[i].Perm = 0
		if s[i].Type == "l" {
			s[i].Size = 0 // the link text carries the volume and the separators of its OS
		}
		if strings.HasPrefix(s[i].Err, "lstat:") {
			s[i].Err = "lstat:error" // the error values are those of the emulated OS
		}
	}
	return s
}

func isOK(o fsx.Out) bool { return o.Err == "ok" || o.Err == "EOF" }

// construction clause: documented values per requested type
func construct(c *vt.Ctx, kind string) *vt.Deviation {
	mk := func(os string, detail string) *vt.Deviation {
		d := vt.Dev("prop", "C17", "fs", kind, "clause", "construct", "os", os)
		d.Detail = kind + "/" + os + ": " + detail
		return d
	}
	for _, tc := range []struct {
		ost  avfs.OSType
		name string
		sep  uint8
	}{{avfs.OsLinux, "linux", '/'}, {avfs.OsWindows, "windows", '\\'}} {
		c.Eval(1)
		v := newFS(kind, tc.ost)
		if v.OSType() != tc.ost {
			return mk(tc.name, fmt.Sprintf("OSType() = %v, requested %v", v.OSType(), tc.ost))
		}
		if v.PathSeparator() != tc.sep {
			return mk(tc.name, fmt.Sprintf("PathSeparator() = %q", v.PathSeparator()))
		}
		if !v.HasFeature(avfs.FeatSetOSType) {
			return mk(tc.name, "built with avfs_setostype but FeatSetOSType is not reported")
		}
		root := "/"
		if tc.ost == avfs.OsWindows {
			root = `C:\`
		}
		if d, _ := v.Getwd(); kind == "OrefaFS" && d != root {
			return mk(tc.name, fmt.Sprintf("initial working directory %q", d))
		}
		// the temporary directory is the emulated system's own, whatever the host's is
		td := v.TempDir()
		if err := v.MkdirAll(td, 0o777); err != nil {
			return mk(tc.name, fmt.Sprintf("MkdirAll(TempDir() = %q): %v", td, err))
		}
		if f, err := v.CreateTemp("", "t*"); err != nil {
			return mk(tc.name, fmt.Sprintf("CreateTemp(\"\", ...) fails: %v (TempDir() = %q exists)", err, td))
		} else {
			n := f.Name()
			_ = f.Close()
			if v.Dir(n) != v.Clean(td) {
				return mk(tc.name, fmt.Sprintf("CreateTemp(\"\", ...) created %q, TempDir() is %q", n, td))
			}
		}
		if n, err := v.MkdirTemp("", "d*"); err != nil || v.Dir(n) != v.Clean(td) {
			return mk(tc.name, fmt.Sprintf("MkdirTemp(\"\", ...) = %q, %v; TempDir() is %q", n, err, td))
		}
		// error values of a battery of failing calls
		missing := v.Join(root, "missing", "x")
		_ = v.MkdirAll(v.Join(root, "d"), 0o755)
		_ = v.WriteFile(v.Join(root, "f"), []byte("x"), 0o644)
		errs := map[string]error{}
		_, errs["Stat(missing)"] = v.Stat(missing)
		errs["Mkdir(existing)"] = v.Mkdir(v.Join(root, "d"), 0o755)
		errs["Remove(missing)"] = v.Remove(missing)
		errs["Chdir(file)"] = v.Chdir(v.Join(root, "f"))
		_, errs["ReadFile(dir)"] = v.ReadFile(v.Join(root, "d"))
		errs["Rename(missing)"] = v.Rename(missing, v.Join(root, "y"))
		_ = v.MkdirAll(v.Join(root, "d", "sub"), 0o755)
		errs["Remove(nonempty)"] = v.Remove(v.Join(root, "d"))
		for what, err := range errs {
			if err == nil {
				return mk(tc.name, what+" succeeded")
			}
			var le avfs.LinuxError
			var we avfs.WindowsError
			isL, isW := errors.As(err, &le), errors.As(err, &we)
			if tc.ost == avfs.OsWindows && !isW || tc.ost == avfs.OsLinux && !isL {
				return mk(tc.name, fmt.Sprintf("%s returned %T %v: not an error value of the emulated OS", what, errors.Unwrap(err), err))
			}
		}
		if !errors.Is(errs["Stat(missing)"], fs.ErrNotExist) || !errors.Is(errs["Mkdir(existing)"], fs.ErrExist) {
			return mk(tc.name, "error values do not map to fs.ErrNotExist / fs.ErrExist")
		}
		if vm, ok := v.(avfs.VolumeManager); ok {
			l := vm.VolumeList()
			sort.Strings(l)
			want := ""
			if tc.ost == avfs.OsWindows {
				want = "C:"
			}
			if strings.Join(l, ",") != want {
				return mk(tc.name, fmt.Sprintf("VolumeList() = %v", l))
			}
		}
	}
	return nil
}

// lock-step history on the Linux-typed and the Windows-typed instance
func runHist(c *vt.Ctx, kind string, ops []fsx.Op) *vt.Deviation {
	lin, win := newFS(kind, avfs.OsLinux), newFS(kind, avfs.OsWindows)
	for _, v := range []avfs.VFS{lin, win} {
		_ = v.SetUMask(0o022)
	}
	_ = lin.MkdirAll("/w", 0o755)
	_ = win.MkdirAll(`C:\w`, 0o755)
	_ = lin.Chdir("/")
	_ = win.Chdir(`C:\`)
	rl, rw := fsx.NewRunner(lin), fsx.NewRunner(win)
	rl.NoOwner, rw.NoOwner = true, true
	defer rl.CloseAll()
	defer rw.CloseAll()
	for _, o := range ops {
		// the root directory is not portable: the two emulations populate it with
		// the system directories of their OS
		cwd, _ := lin.Getwd()
		isRoot := func(p string) bool {
			if p == "" {
				return false
			}
			if !strings.HasPrefix(p, "/") {
				p = path.Join(cwd, p)
			}
			return path.Clean(p) == "/"
		}
		if !strings.HasPrefix(o.K, "F") && o.K != "Getwd" && (isRoot(o.P) && o.K != "Symlink" || isRoot(o.P2) && (o.K == "Rename" || o.K == "Link" || o.K == "Symlink")) {
			c.Label("skipped-root-operand")
			if o.K == "Open" || o.K == "Create" {
				break // the rest of the group needs the handle
			}
			continue
		}
		c.Eval(1)
		ol := rl.Do(o)
		ow := rw.Do(fsx.Retarget(o, true))
		mk := func(clause, detail string) *vt.Deviation {
			d := vt.Dev("prop", "C17", "fs", kind, "clause", clause, "op", o.K)
			if o.K == "Open" {
				d.Fields["params"] = fsx.FlagString(o.Flag)
			}
			d.Fields["linux"], d.Fields["windows"] = okClass(ol), okClass(ow)
			d.Detail = fmt.Sprintf("%s %s: Linux-typed %s, Windows-typed %s; %s", kind, o, ol, ow, detail)
			return d
		}
		if ol.Err == "PANIC" || ow.Err == "PANIC" {
			return mk("panic", ol.Note+ow.Note)
		}
		if isOK(ol) != isOK(ow) {
			return mk("agreement", "one succeeds and the other fails")
		}
		if isOK(ol) && (o.K == "Glob" || o.K == "ReadDir" || o.K == "ReadFile") {
			// what isomorphic trees answer to the same question, spelt portably
			wv := strings.ReplaceAll(strings.ReplaceAll(ow.Val, `C:\\`, "/"), `\\`, "/")
			if sysName.MatchString(ol.Val) || sysName.MatchString(wv) {
				// the root directory reached through a link: its system directories are those of the OS
				c.Label("skipped-root-listing")
			} else if wv != ol.Val {
				return mk("answers", fmt.Sprintf("the answers differ: Linux-typed %s, Windows-typed %s", ol.Val, wv))
			}
		}
		if (o.K == "Stat" || o.K == "Lstat") && isOK(ol) && o.P != "" {
			// both separators are valid under Windows: the same path written with '/' names the same
			// entry, and the entry's name is the one the Linux-typed file system reports
			wp := fsx.Retarget(o, true).P
			fp := strings.ReplaceAll(wp, `\`, "/")
			ls, ws := lin.Stat, win.Stat
			if o.K == "Lstat" {
				ls, ws = lin.Lstat, win.Lstat
			}
			il, el := ls(o.P)
			i1, e1 := ws(wp)
			i2, e2 := ws(fp)
			if el == nil && e1 == nil && (e2 != nil || i1.Name() != i2.Name() || i2.Name() != il.Name()) {
				nm := "-"
				if e2 == nil {
					nm = i2.Name()
				}
				return mk("slash-spelling", fmt.Sprintf("%s(%q) names %q, %s(%q) gives %q, %v; the Linux-typed entry is %q", o.K, wp, i1.Name(), o.K, fp, nm, e2, il.Name()))
			}
			c.Label("slash-spelling-compared")
		}
		sl, sw := snapshot(lin, kind, false), snapshot(win, kind, true)
		if p, f, l, r, same := fsx.Diff(sl, sw); !same {
			return mk("isomorphic", fmt.Sprintf("trees differ at %s (%s): Linux-typed %q, Windows-typed %q", p, f, l, r))
		}
	}
	return nil
}

// sysName: a name of a system directory in an answer - the universe of the histories has none, the answer
// came from the root directory (reached through a link), which each emulation populates for its OS.
var sysName = regexp.MustCompile(`(^|[/"\[ :])(Users|Windows|home|root|tmp)($|[/"\] :])`)

func okClass(o fsx.Out) string {
	if isOK(o) {
		return "ok"
	}
	return "fail"
}

// modelVolume is the reference for the names used below: a drive letter (ASCII letter and
// colon) in front, or a \\host\share prefix; nothing else is a volume.
func modelVolume(name string) string {
	name = strings.ReplaceAll(name, "/", `\`) // either separator; the volume name is spelt with backslashes
	if len(name) >= 2 && name[1] == ':' && (name[0] >= 'a' && name[0] <= 'z' || name[0] >= 'A' && name[0] <= 'Z') {
		return name[:2]
	}
	if strings.HasPrefix(name, `\\`) {
		parts := strings.Split(name[2:], `\`)
		if len(parts) >= 2 && parts[0] != "" && parts[1] != "" && parts[0] != "." && parts[1] != "." {
			return `\\` + parts[0] + `\` + parts[1]
		}
	}
	return ""
}

// volume management against a set model (MemFS; OrefaFS has no volume manager)
func runVolumes(c *vt.Ctx, steps []string) *vt.Deviation {
	win := memfs.NewWithOptions(&memfs.Options{OSType: avfs.OsWindows})
	lin := memfs.NewWithOptions(&memfs.Options{OSType: avfs.OsLinux})
	model := map[string]bool{"C:": true}
	linked := map[string]string{} // volume -> file on C: that has a second name on the volume
	dead := map[string]bool{}     // ... whose C: side is gone
	mk := func(step, detail string) *vt.Deviation {
		d := vt.Dev("prop", "C17", "fs", "MemFS", "clause", "volumes", "op", strings.SplitN(step, ":", 2)[0])
		d.Detail = fmt.Sprintf("after %v: %s", steps, detail)
		return d
	}
	for _, st := range steps {
		c.Eval(1)
		parts := strings.SplitN(st, ":", 2)
		name := ""
		if len(parts) > 1 {
			name = parts[1]
		}
		vol := modelVolume(name)
		if got := avfs.VolumeName(win, name); got != vol {
			return mk(st, fmt.Sprintf("VolumeName(%q) = %q, want %q", name, got, vol))
		}
		switch parts[0] {
		case "add":
			err := win.VolumeAdd(name)
			switch {
			case vol == "":
				if !errors.Is(err, avfs.ErrVolumeNameInvalid) {
					return mk(st, fmt.Sprintf("VolumeAdd(%q) = %v, want ErrVolumeNameInvalid", name, err))
				}
			case model[vol]:
				if !errors.Is(err, avfs.ErrVolumeAlreadyExists) {
					return mk(st, fmt.Sprintf("VolumeAdd(%q) = %v, want ErrVolumeAlreadyExists", name, err))
				}
			default:
				if err != nil {
					return mk(st, fmt.Sprintf("VolumeAdd(%q) = %v", name, err))
				}
				model[vol] = true
				// a file on the new volume
				if err := win.WriteFile(vol+`\file`, []byte(vol), 0o644); err != nil {
					return mk(st, fmt.Sprintf("cannot create a file on the new volume %s: %v", vol, err))
				}
				// ... and, when the emulation allows it, a second name on that volume for a file of C:
				// (deleting the volume must take that name away like any removal does)
				keep := `C:\keep-` + strings.Trim(strings.ReplaceAll(vol, `\`, "-"), ":-")
				if err := win.WriteFile(keep, []byte("k"), 0o644); err == nil && model["C:"] && vol != "C:" {
					if err := win.Link(keep, vol+`\hardlink`); err == nil {
						linked[vol] = keep
					}
				}
			}
			if err := lin.VolumeAdd(name); !errors.Is(err, avfs.ErrVolumeWindows) {
				return mk(st, fmt.Sprintf("Linux-typed VolumeAdd = %v, want ErrVolumeWindows", err))
			}
		case "del":
			err := win.VolumeDelete(name)
			switch {
			case vol == "" || !model[vol]:
				if !errors.Is(err, avfs.ErrVolumeNameInvalid) {
					return mk(st, fmt.Sprintf("VolumeDelete(%q) = %v, want ErrVolumeNameInvalid", name, err))
				}
			default:
				if err != nil {
					return mk(st, fmt.Sprintf("VolumeDelete(%q) = %v", name, err))
				}
				delete(model, vol)
				if _, err := win.Stat(vol + `\file`); err == nil {
					return mk(st, "a file of the deleted volume is still there")
				}
				if vol == "C:" {
					for v := range linked {
						dead[v] = true // the files on C: went with it; their other names stay where they are
					}
				}
				keep, wasDead := linked[vol], dead[vol]
				delete(linked, vol)
				delete(dead, vol)
				if keep != "" && !wasDead {
					fi, err := win.Stat(keep)
					if err != nil {
						return mk(st, fmt.Sprintf("the file %s on C: disappeared with the volume %s: %v", keep, vol, err))
					}
					if n := win.ToSysStat(fi).Nlink(); n != 1 {
						return mk(st, fmt.Sprintf("after VolumeDelete(%q) the file %s, whose other name was on that volume, has link count %d, want 1", name, keep, n))
					}
				}
			}
			if err := lin.VolumeDelete(name); !errors.Is(err, avfs.ErrVolumeWindows) {
				return mk(st, fmt.Sprintf("Linux-typed VolumeDelete = %v, want ErrVolumeWindows", err))
			}
		}
		got := win.VolumeList()
		sort.Strings(got)
		var want []string
		for v := range model {
			want = append(want, v)
		}
		sort.Strings(want)
		if strings.Join(got, ",") != strings.Join(want, ",") {
			return mk(st, fmt.Sprintf("VolumeList() = %v, model %v", got, want))
		}
		if l := lin.VolumeList(); len(l) != 0 {
			return mk(st, fmt.Sprintf("Linux-typed VolumeList() = %v", l))
		}
		// files of the volumes that remain are still there
		for v := range model {
			if v == "C:" {
				continue
			}
			if b, err := win.ReadFile(v + `\file`); err != nil || string(b) != v {
				return mk(st, fmt.Sprintf("file on volume %s: %q %v", v, b, err))
			}
			// a volume has its own root: exactly what was put there
			want := 1
			if linked[v] != "" {
				want = 2
			}
			if es, err := win.ReadDir(v + `\`); err != nil || len(es) != want || es[0].Name() != "file" {
				return mk(st, fmt.Sprintf("ReadDir of the root of volume %s: %v %v, want [file] (+ hardlink)", v, es, err))
			}
		}
		// a volume that does not exist cannot be reached by any path: Windows "path not found",
		// and nothing appears on another volume
		for _, v := range []string{"C:", "D:", "E:", "F:", "Z:", "A:"} {
			if model[v] {
				continue
			}
			calls := map[string]error{}
			_, calls["Stat"] = win.Stat(v + `\`)
			_, calls["Lstat"] = win.Lstat(v + `\file`)
			_, calls["ReadDir"] = win.ReadDir(v + `\`)
			calls["Mkdir"] = win.Mkdir(v+`\ghostdir`, 0o755)
			calls["MkdirAll"] = win.MkdirAll(v+`\ghostall\x`, 0o755)
			calls["WriteFile"] = win.WriteFile(v+`\ghostfile`, []byte("x"), 0o644)
			for name, err := range calls {
				if !errors.Is(err, avfs.ErrWinPathNotFound) {
					return mk(st, fmt.Sprintf("%s on the missing volume %s = %v, want ErrWinPathNotFound", name, v, err))
				}
			}
			for o := range model {
				for _, g := range []string{"ghostdir", "ghostall", "ghostfile"} {
					if _, err := win.Lstat(o + `\` + g); err == nil {
						return mk(st, fmt.Sprintf("a call on the missing volume %s created %s\\%s", v, o, g))
					}
				}
			}
		}
	}
	return nil
}

func TestCheck(t *testing.T) {
	c := vt.New(t, "C17")
	defer c.Finish()
	for _, f := range c.ReplayFiles() {
		var cs Case
		if err := vt.LoadReplay(f, &cs); err != nil {
			c.Inconclusive("replay " + f + ": " + err.Error())
			continue
		}
		var dev *vt.Deviation
		switch cs.Kind {
		case "construct":
			dev = construct(c, cs.FS)
		case "volumes":
			dev = runVolumes(c, cs.Vol)
		default:
			dev = runHist(c, cs.FS, cs.Ops)
		}
		if dev != nil {
			if k := c.KnownFor(dev); k != nil {
				c.WitnessLive(k.ID)
			}
			c.Report(dev, cs)
		}
	}
	if c.Replay != "" {
		return
	}
	for _, kind := range []string{"MemFS", "OrefaFS"} {
		if dev := construct(c, kind); dev != nil {
			c.Report(dev, Case{Kind: "construct", FS: kind})
		}
	}
	// histories
	for _, kind := range []string{"MemFS", "OrefaFS"} {
		kind := kind
		mem := kind == "MemFS"
		cfg := gen.Config{Symlinks: mem, Root: false, Base: "/w", NoChown: true, NoTemp: true, NoTmp: true, Kinds: append(append([]string{}, gen.AllKinds...), "Glob")}
		// bounded-exhaustive: every instance once from every start tree
		trees := cfg.StartTrees()
		var tn []string
		for n := range trees {
			tn = append(tn, n)
		}
		sort.Strings(tn)
		idx := 0
		for _, n := range tn {
			for _, in := range cfg.All(!c.Thorough(), true) {
				idx++
				if idx%c.NShards != c.Shard {
					continue
				}
				ops := append(append([]fsx.Op{}, trees[n]...), in...)
				if dev := runHist(c, kind, ops); dev != nil {
					c.Report(dev, Case{Kind: "hist", FS: kind, Ops: ops})
				}
			}
		}
		// siblings whose names differ by case only: two directories, two files - every call that names one
		// of them, or moves one below the other, acts on that one under both emulations
		{
			pre := []fsx.Op{{K: "Mkdir", P: "/w/A", Perm: 0o755}, {K: "Mkdir", P: "/w/a", Perm: 0o755}, {K: "WriteFile", P: "/w/A/f", Data: "UPPER", Perm: 0o644}, {K: "WriteFile", P: "/w/a/f", Data: "lower", Perm: 0o644},
				{K: "WriteFile", P: "/w/a/F", Data: "lowerF", Perm: 0o644}, {K: "Mkdir", P: "/w/a/B", Perm: 0o755}}
			calls := []fsx.Op{{K: "Rename", P: "/w/A", P2: "/w/a/m"}, {K: "Rename", P: "/w/a", P2: "/w/A/m"}, {K: "Rename", P: "/w/A/f", P2: "/w/a/f"}, {K: "Rename", P: "/w/a/f", P2: "/w/a/F"},
				{K: "Rename", P: "/w/a/B", P2: "/w/a/b"}, {K: "Rename", P: "/w/A", P2: "/w/a"}, {K: "Rename", P: "/w/a/B", P2: "/w/a/b/c"}, {K: "Link", P: "/w/A/f", P2: "/w/a/g"}, {K: "Link", P: "/w/a/f", P2: "/w/a/F"},
				{K: "Remove", P: "/w/A/f"}, {K: "RemoveAll", P: "/w/A"}, {K: "RemoveAll", P: "/w/a"}, {K: "Mkdir", P: "/w/a/b", Perm: 0o755}, {K: "MkdirAll", P: "/w/A/B/c", Perm: 0o755}, {K: "ReadDir", P: "/w"}, {K: "ReadDir", P: "/w/a"},
				{K: "ReadFile", P: "/w/A/f"}, {K: "ReadFile", P: "/w/a/F"}, {K: "Stat", P: "/w/A/F"}, {K: "WriteFile", P: "/w/A/F", Data: "new", Perm: 0o644}, {K: "Glob", P: "/w/[aA]/*"}, {K: "Glob", P: "/w/A/*"}, {K: "WalkDir", P: "/w"},
				{K: "Chdir", P: "/w/A"}, {K: "Truncate", P: "/w/a/F", Size: 1}}
			for _, call := range calls {
				idx++
				if idx%c.NShards != c.Shard {
					continue
				}
				ops := append(append([]fsx.Op{}, pre...), call, fsx.Op{K: "Getwd"}, fsx.Op{K: "ReadDir", P: "/w/a"}, fsx.Op{K: "ReadDir", P: "/w/A"})
				if dev := runHist(c, kind, ops); dev != nil {
					c.Report(dev, Case{Kind: "hist", FS: kind, Ops: ops})
				}
				c.NonTrivial(vt.Hash64(kind, "case-siblings", call.String()))
			}
		}
		c.Rapid("hist-"+kind, c.Pick(1500, 40000), func(t *rapid.T) *vt.Failure {
			var ops []fsx.Op
			// names that differ by case only are different names under both emulations (the emulated tree
			// is case sensitive whatever the OS type): some operands get "A" for "a"
			upper := func(p string) string {
				switch {
				case p == "/w/a" || strings.HasPrefix(p, "/w/a/"):
					return "/w/A" + p[4:]
				case p == "a" || strings.HasPrefix(p, "a/"):
					return "A" + p[1:]
				}
				return p
			}
			cased := rapid.Bool().Draw(t, "cased")
			for n := rapid.IntRange(1, 40).Draw(t, "n"); n > 0; n-- {
				in := cfg.Draw(t)
				if cased && in[0].K != "Symlink" {
					switch rapid.IntRange(0, 5).Draw(t, "upper") {
					case 0:
						in[0].P = upper(in[0].P)
					case 1:
						in[0].P2 = upper(in[0].P2)
					}
				}
				ops = append(ops, in...)
			}
			if rapid.IntRange(0, 2).Draw(t, "root-glob") == 0 {
				// a wildcard in the first component below the root / the volume root (the pattern's
				// directory part is then the root itself); "w" is the only name both roots share
				ops = append(ops, fsx.Op{K: "Glob", P: rapid.SampledFrom([]string{"/w*", "/w*/*", "/[w]/a*", "/?/*", "/w*/a/*"}).Draw(t, "rg")})
			}
			if dev := runHist(c, kind, ops); dev != nil {
				return &vt.Failure{Dev: dev, Replay: Case{Kind: "hist", FS: kind, Ops: ops}}
			}
			// non-trivial: at least one successful rename or link and one failure on both sides
			lin := newFS(kind, avfs.OsLinux)
			_ = lin.MkdirAll("/w", 0o755)
			_ = lin.Chdir("/")
			r := fsx.NewRunner(lin)
			okRL, fail := false, false
			for _, o := range ops {
				out := r.Do(o)
				if (o.K == "Rename" || o.K == "Link") && out.Err == "ok" {
					okRL = true
				}
				if !isOK(out) {
					fail = true
				}
			}
			r.CloseAll()
			if okRL && fail {
				parts := []string{kind}
				for _, o := range ops {
					parts = append(parts, o.String())
				}
				c.NonTrivial(vt.Hash64(parts...))
				c.Sample("hist-"+kind, map[string]any{"fs": kind, "ops": len(ops), "last": ops[len(ops)-1].String()})
			}
			return nil
		})
	}
	// volumes
	names := []string{"C:", "D:", "d:", `D:\x`, "x", "", "E:", `\\host\share`, "//host/share/x"}
	// the ends of the two letter ranges and the characters just outside them
	edge := []string{"Z:", "z:", "A:", "a:", `Z:\x`, "@:", "[:", "`:", "{:", "1:"}
	var steps, all []string
	for _, n := range names {
		steps = append(steps, "add:"+n, "del:"+n)
	}
	for _, n := range append(append([]string{}, names...), edge...) {
		all = append(all, "add:"+n, "del:"+n)
	}
	if c.Thorough() {
		steps = all
	} else {
		// quick: all pairs over the larger set, all triples over the smaller one
		pi := 0
		for _, a := range all {
			for _, b := range all {
				pi++
				if pi%c.NShards != c.Shard {
					continue
				}
				seq := []string{a, b}
				if dev := runVolumes(c, seq); dev != nil {
					c.Report(dev, Case{Kind: "volumes", Vol: seq})
				}
				c.NonTrivial(vt.Hash64(seq...))
			}
		}
	}
	idx := 0
	for _, a := range steps {
		for _, b := range steps {
			for _, d := range steps {
				idx++
				if idx%c.NShards != c.Shard {
					continue
				}
				seq := []string{a, b, d}
				if dev := runVolumes(c, seq); dev != nil {
					c.Report(dev, Case{Kind: "volumes", Vol: seq})
				}
				c.NonTrivial(vt.Hash64(seq...))
			}
		}
	}
	c.Extra("volumes", fmt.Sprintf("all %d^3 sequences of VolumeAdd/VolumeDelete (and, in the quick tier, all %d^2 over the names extended by the edges of the drive-letter ranges) against a set model", len(steps), len(all)))
	c.SetExhaustive(true)
}
