//go:build verif

package c05

import "io/fs"

type fsFileInfo = fs.FileInfo
type fsDirEntry = fs.DirEntry
