//go:build verif

// C05 - the namespace is always a well-formed tree with exact link counts.
package c05

import (
	"fmt"
	"os"
	"path"
	"sort"
	"strings"
	"testing"

	"github.com/avfs/avfs"
	"github.com/avfs/avfs/idm/memidm"
	"github.com/avfs/avfs/vfs/memfs"
	"github.com/avfs/avfs/vfs/orefafs"
	"pgregory.net/rapid"

	"verif/harness/internal/conc"
	"verif/harness/internal/fsx"
	"verif/harness/internal/gen"
	"verif/harness/internal/sched"
	"verif/harness/internal/vt"
)

// Case is a replayable C05 case.
type Case struct {
	Kind string        `json:"kind"` // "seq" | "conc"
	FS   string        `json:"fs"`   // MemFS | OrefaFS | MemFS-win | OrefaFS-win
	Ops  []fsx.Op      `json:"ops,omitempty"`
	Conc *conc.Program `json:"conc,omitempty"`
	Via  []int         `json:"via,omitempty"` // kind "views": which of {instance, view 1, view 2} issues Ops[i]
}

var kinds = []string{"MemFS", "OrefaFS", "MemFS-win", "OrefaFS-win"}

func newFS(kind string) avfs.VFS {
	ost := avfs.OsLinux
	if strings.HasSuffix(kind, "-win") {
		ost = avfs.OsWindows
	}
	var v avfs.VFS
	if strings.HasPrefix(kind, "OrefaFS") {
		v = orefafs.NewWithOptions(&orefafs.Options{OSType: ost})
	} else {
		v = memfs.NewWithOptions(&memfs.Options{OSType: ost, Idm: memidm.NewWithOptions(&memidm.Options{OSType: ost})})
	}
	_ = v.SetUMask(0o022)
	if ost == avfs.OsWindows {
		_ = v.Chdir(`C:\`)
		_ = v.MkdirAll(`C:\w`, 0o755)
	} else {
		_ = v.Chdir("/")
		_ = v.MkdirAll("/w", 0o755)
	}
	return v
}

func internal(v avfs.VFS) []string {
	switch x := v.(type) {
	case *memfs.MemFS:
		return memfs.VerifCheck(x)
	case *orefafs.OrefaFS:
		return orefafs.VerifCheck(x)
	}
	return nil
}

func init() { conc.Invariants = internal }

// view is a file system seen through /-paths whatever its OS type, so that
// the same snapshot and classification code serves both emulations.
type view struct {
	avfs.VFS
	win bool
}

func (v view) conv(p string) string {
	if !v.win {
		return p
	}
	if strings.HasPrefix(p, "/") {
		return `C:` + strings.ReplaceAll(p, "/", `\`)
	}
	return strings.ReplaceAll(p, "/", `\`)
}
func (v view) Lstat(p string) (fsFileInfo, error)     { return v.VFS.Lstat(v.conv(p)) }
func (v view) Stat(p string) (fsFileInfo, error)      { return v.VFS.Stat(v.conv(p)) }
func (v view) ReadDir(p string) ([]fsDirEntry, error) { return v.VFS.ReadDir(v.conv(p)) }
func (v view) ReadFile(p string) ([]byte, error)      { return v.VFS.ReadFile(v.conv(p)) }
func (v view) Readlink(p string) (string, error) {
	s, err := v.VFS.Readlink(v.conv(p))
	if v.win {
		s = strings.ReplaceAll(strings.TrimPrefix(s, "C:"), `\`, "/")
	}
	return s, err
}

var snapRoots = map[bool][]string{false: {"/"}, true: {"/home", "/root", "/tmp", "/w", "/a", "/b", "/c", "/Users", "/Windows"}}

func snapshot(v avfs.VFS, kind string, full bool) fsx.Snap {
	vw := view{v, strings.HasSuffix(kind, "-win")}
	roots := []string{"/"}
	if strings.HasPrefix(kind, "OrefaFS") {
		roots = snapRoots[true] // the OrefaFS root cannot be listed (known finding of C01)
	}
	return fsx.Snapshot(vw, fsx.SnapOpts{Roots: roots, Full: full, NoOwner: strings.HasPrefix(kind, "OrefaFS")})
}

// apiInvariants checks the API-level clauses of C05 on a snapshot.
func apiInvariants(v avfs.VFS, kind string, s fsx.Snap) []string {
	var out []string
	vw := view{v, strings.HasSuffix(kind, "-win")}
	classes := map[int][]fsx.Rec{}
	for _, r := range s {
		if r.Type == "" {
			continue // placeholder of a snapshot root that does not exist
		}
		if r.Err != "" {
			out = append(out, fmt.Sprintf("%s: %s", r.Path, r.Err))
		}
		if r.Type == "f" {
			classes[r.Ident] = append(classes[r.Ident], r)
		}
		if r.Type == "d" {
			// a name not listed must not exist
			listed := map[string]bool{}
			pre := strings.TrimSuffix(r.Path, "/") + "/"
			for _, c := range s {
				if strings.HasPrefix(c.Path, pre) && !strings.Contains(c.Path[len(pre):], "/") && c.Type != "" {
					listed[c.Path[len(pre):]] = true
				}
			}
			for _, n := range []string{"a", "b", "c", "x", "y", "t", ""} {
				if n == "" || listed[n] {
					continue
				}
				if _, err := vw.Lstat(pre + n); err == nil {
					out = append(out, fmt.Sprintf("%s%s exists (Lstat succeeds) but is not listed by ReadDir(%s)", pre, n, r.Path))
				}
			}
		}
	}
	for _, recs := range classes {
		first := recs[0]
		if int(first.Nlink) != len(recs) {
			var ps []string
			for _, r := range recs {
				ps = append(ps, r.Path)
			}
			out = append(out, fmt.Sprintf("Nlink of %s is %d but %d paths are SameFile with it %v", first.Path, first.Nlink, len(recs), ps))
		}
		for _, r := range recs[1:] {
			if r.Content != first.Content || r.Size != first.Size || r.Perm != first.Perm || r.Uid != first.Uid || r.Gid != first.Gid || r.Nlink != first.Nlink {
				out = append(out, fmt.Sprintf("hard links %s and %s differ: %s vs %s", first.Path, r.Path, first, r))
			}
		}
	}
	sort.Strings(out)
	return out
}

// primitives for which "a failed call leaves the tree exactly as it was" is asserted
// (composites may legitimately fail half way, RemoveAll is exempted by the property).
var atomicOnFailure = map[string]bool{"Mkdir": true, "Open": true, "Remove": true, "Rename": true, "Link": true, "Symlink": true, "Truncate": true,
	"Chmod": true, "Chown": true, "Lchown": true, "Chtimes": true, "Chdir": true, "Stat": true, "Lstat": true, "ReadDir": true, "Readlink": true, "ReadFile": true,
	"EvalSymlinks": true, "FWrite": true, "FClose": true, "FTruncate": true, "FChmod": true}

// frame checks the frame conditions of one call from the full snapshots around it.
func frame(o fsx.Op, out fsx.Out, before, after fsx.Snap, cwd string) []string {
	if strings.HasPrefix(o.K, "F") {
		return nil // a handle call names no path; what it may change is C02's business
	}
	changed := changedPaths(before, after)
	if len(changed) == 0 {
		return nil
	}
	if out.Err != "ok" && out.Err != "EOF" {
		if o.K == "RemoveAll" || !atomicOnFailure[o.K] {
			return nil
		}
		return []string{fmt.Sprintf("failed call changed the tree at %v", changed)}
	}
	// successful call: only the named paths, their descendants, other links of
	// a named file, and the containing directories may change
	allowed := map[string]bool{}
	idents := map[int]bool{}
	add := func(p string, follow bool) {
		if p == "" && o.K != "CreateTemp" && o.K != "MkdirTemp" {
			return
		}
		for _, s := range []fsx.Snap{before, after} {
			for _, fl := range []bool{false, follow} {
				ph := fsx.Physical(s, cwd, p, fl)
				allowed[ph] = true
				allowed[path.Dir(ph)] = true
				if r := s.Lookup(ph); r != nil && r.Type == "f" {
					idents[r.Ident*2+boolInt(&s[0] == &after[0])] = true
				}
			}
		}
	}
	switch o.K {
	case "Symlink":
		add(o.P2, false)
	case "CreateTemp", "MkdirTemp":
		d := o.P
		if d == "" {
			d = "/tmp"
		}
		add(d, true)
	case "RenameTemp":
		return nil // harness step
	case "Mkdir", "Remove", "RemoveAll", "Rename", "Link", "Lchown", "Lstat", "Readlink":
		// these act on a final symbolic link itself: what the link points to is not named
		add(o.P, false)
		add(o.P2, false)
	default:
		excl := o.K == "Open" && o.Flag&(os.O_CREATE|os.O_EXCL) == os.O_CREATE|os.O_EXCL
		add(o.P, !excl)
		add(o.P2, true)
	}
	var bad []string
	for _, p := range changed {
		ok := false
		for a := range allowed {
			if p == a || strings.HasPrefix(p, strings.TrimSuffix(a, "/")+"/") && !isParentOnly(a, allowed, o) {
				ok = true
				break
			}
		}
		if !ok {
			// another link of a named file, or of a file below a named directory
			for _, s := range []fsx.Snap{before, after} {
				if r := s.Lookup(p); r != nil && r.Type == "f" {
					for _, ar := range s {
						if ar.Type != "f" || ar.Ident != r.Ident || ar.Path == p {
							continue
						}
						for a := range allowed {
							if ar.Path == a || strings.HasPrefix(ar.Path, strings.TrimSuffix(a, "/")+"/") && !isParentOnly(a, allowed, o) {
								ok = true
							}
						}
					}
				}
			}
		}
		if !ok {
			bad = append(bad, p)
		}
	}
	if len(bad) > 0 {
		return []string{fmt.Sprintf("successful call changed entries it does not name: %v", bad)}
	}
	return nil
}

// isParentOnly: a containing directory is allowed to change itself (mtime),
// not its other children; descendants are allowed only below the named paths.
func isParentOnly(a string, allowed map[string]bool, o fsx.Op) bool {
	// a is "parent only" when it was added as Dir(x) of a named path x and is
	// not itself a named path: detect by checking that some allowed child exists
	for b := range allowed {
		if b != a && path.Dir(b) == a {
			return true
		}
	}
	return false
}

func boolInt(b bool) int {
	if b {
		return 1
	}
	return 0
}

func changedPaths(a, b fsx.Snap) []string {
	var r []string
	i, j := 0, 0
	for i < len(a) || j < len(b) {
		switch {
		case j >= len(b) || (i < len(a) && a[i].Path < b[j].Path):
			r = append(r, a[i].Path)
			i++
		case i >= len(a) || a[i].Path > b[j].Path:
			r = append(r, b[j].Path)
			j++
		default:
			x, y := a[i], b[j]
			x.Ident, y.Ident = 0, 0 // identity class numbers shift when paths appear
			if x.Type == "d" {
				x.Mtime, y.Mtime = 0, 0 // the containing directory's mtime may change
			}
			if x.String() != y.String() {
				r = append(r, x.Path)
			}
			i++
			j++
		}
	}
	return r
}

// drawAliasing draws an instance biased to aliasing operands.
func drawAliasing(t *rapid.T, cfg gen.Config, s fsx.Snap) gen.Inst {
	in := cfg.Draw(t)
	o := &in[0]
	if o.K != "Rename" && o.K != "Link" && o.K != "Symlink" {
		return in
	}
	switch rapid.IntRange(0, 7).Draw(t, "alias") {
	case 0: // identical
		if o.K != "Symlink" {
			o.P2 = o.P
		}
	case 1: // destination below source
		o.P2 = strings.TrimSuffix(o.P, "/") + "/" + rapid.SampledFrom([]string{"a", "b", "x"}).Draw(t, "child")
	case 2: // source below destination
		if d := path.Dir(o.P); d != "." && o.K != "Symlink" {
			o.P2 = d
		}
	case 3: // another hard link of the source
		if r := s.Lookup(o.P); r != nil && r.Type == "f" && o.K != "Symlink" {
			for _, x := range s {
				if x.Type == "f" && x.Ident == r.Ident && x.Path != r.Path {
					o.P2 = x.Path
					break
				}
			}
		}
	case 4: // the root
		if cfg.Root {
			if rapid.Bool().Draw(t, "rootsrc") && o.K != "Symlink" {
				o.P = "/"
			} else {
				o.P2 = "/"
			}
		}
	}
	return in
}

func aliasing(s fsx.Snap, cwd string, o fsx.Op) bool {
	if o.K == "Rename" || o.K == "Link" {
		switch fsx.Relation(s, cwd, o.P, o.P2) {
		case "same-path", "same-file", "a-anc-b", "b-anc-a":
			return true
		}
	}
	return o.P == "/" || o.P2 == "/"
}

// step runs one op with the invariant and frame checks around it.
func step(c *vt.Ctx, v avfs.VFS, r *fsx.Runner, kind string, o fsx.Op, before fsx.Snap, cwd string) (fsx.Out, fsx.Snap, *vt.Deviation) {
	win := strings.HasSuffix(kind, "-win")
	out := r.Do(fsx.Retarget(o, win))
	c.Eval(1)
	mk := func(clause, detail string) *vt.Deviation {
		d := vt.Dev("prop", "C05", "fs", kind, "op", o.K, "clause", clause, "a", fsx.Classify(before, cwd, o.P))
		if o.K == "Rename" || o.K == "Link" {
			d.Fields["b"] = fsx.Classify(before, cwd, o.P2)
			d.Fields["rel"] = fsx.Relation(before, cwd, o.P, o.P2)
		}
		d.Fields["outcome"] = out.Err
		d.Fields["ab"] = d.Fields["a"] + ";" + d.Fields["b"]
		d.Detail = fmt.Sprintf("%s %s -> %s: %s", kind, o, out, detail)
		return d
	}
	if out.Err == "PANIC" {
		return out, before, nil // C07's business; the state may be inconsistent
	}
	if out.Err == "HANG" {
		return out, before, mk("hang", "the call did not return ("+out.Note+"): the tree cannot be walked any more")
	}
	after := snapshot(v, kind, true)
	if bad := internal(v); len(bad) > 0 {
		return out, after, mk("internal", strings.Join(bad, "; "))
	}
	if bad := apiInvariants(v, kind, after); len(bad) > 0 {
		return out, after, mk("api", strings.Join(bad, "; "))
	}
	if bad := frame(o, out, before, after, cwd); len(bad) > 0 {
		return out, after, mk("frame", strings.Join(bad, "; "))
	}
	return out, after, nil
}

func runSeq(c *vt.Ctx, kind string, ops []fsx.Op) *vt.Deviation {
	v := newFS(kind)
	r := fsx.NewRunner(v)
	r.NoOwner = strings.HasPrefix(kind, "OrefaFS")
	defer r.CloseAll()
	snap := snapshot(v, kind, true)
	cwd := "/"
	opened := map[int]string{}
	for _, o := range ops {
		out, after, dev := step(c, v, r, kind, o, snap, cwd)
		if dev != nil {
			return dev
		}
		snap = after
		cwd = trackCwd(snap, cwd, opened, o, out)
	}
	return nil
}

// runViews issues a history on one MemFS tree through the instance itself and through two Sub("/")
// views of it in turn (the documented way of sharing a tree): the invariants are those of the tree,
// whoever made the change. Each view has its own handles and working directory.
func runViews(c *vt.Ctx, ops []fsx.Op, via []int) *vt.Deviation {
	const kind = "MemFS"
	v := newFS(kind)
	vs := []avfs.VFS{v}
	for i := 0; i < 2; i++ {
		s, err := v.Sub("/")
		if err != nil {
			c.Inconclusive("Sub: " + err.Error())
			return nil
		}
		vs = append(vs, s)
	}
	var rs []*fsx.Runner
	for _, x := range vs {
		r := fsx.NewRunner(x)
		defer r.CloseAll()
		rs = append(rs, r)
	}
	snap := snapshot(v, kind, true)
	cwds := []string{"/", "/", "/"}
	opened := []map[int]string{{}, {}, {}}
	for i, o := range ops {
		w := 0
		if i < len(via) {
			w = via[i] % len(vs)
		}
		out, after, dev := step(c, v, rs[w], kind, o, snap, cwds[w])
		if dev != nil {
			dev.Fields["via"] = fmt.Sprint(w)
			return dev
		}
		snap = after
		cwds[w] = trackCwd(snap, cwds[w], opened[w], o, out)
	}
	return nil
}

// runDenied: o is a RemoveAll issued by a non-administrator; o.Perm is the mode of the directory /w/t/p
// (owned by the administrator) that stands in his way.
func runDenied(c *vt.Ctx, o fsx.Op) *vt.Deviation {
	const kind = "MemFS"
	v := newFS(kind)
	idm := v.Idm()
	_, _ = idm.AddGroup("g1")
	u1, err := idm.AddUser("u1", "g1")
	if err != nil {
		c.Inconclusive("AddUser: " + err.Error())
		return nil
	}
	_ = v.SetUMask(0)
	for _, d := range []string{"/w/t", "/w/t/p", "/w/t/q", "/w/t/q/r", "/w/t/p/s"} {
		_ = v.Mkdir(d, 0o777)
	}
	_ = v.Chmod("/w", 0o777)
	for _, f := range []string{"/w/t/p/f", "/w/t/q/g", "/w/t/q/r/h", "/w/t/p/s/k", "/w/keep"} {
		_ = v.WriteFile(f, []byte(f), 0o666)
	}
	_ = v.Link("/w/t/p/f", "/w/out1")     // out of the protected directory
	_ = v.Link("/w/t/q/g", "/w/out2")     // out of a removable one
	_ = v.Link("/w/keep", "/w/t/q/r/in")  // into the tree
	_ = v.Link("/w/t/q/r/h", "/w/t/p/h2") // from the removable part into the protected part
	_ = v.Link("/w/t/p/s/k", "/w/t/q/k2") // and back
	_ = v.Chmod("/w/t/p", fsx.ModeFromBits(o.Perm))
	r := fsx.NewRunner(v)
	defer r.CloseAll()
	_ = v.SetUser(u1)
	out := r.Do(fsx.Op{K: "RemoveAll", P: o.P})
	_ = v.SetUser(idm.AdminUser())
	c.Eval(1)
	mk := func(clause, detail string) *vt.Deviation {
		d := vt.Dev("prop", "C05", "fs", kind, "op", "RemoveAll", "clause", clause, "a", "dir+", "outcome", out.Err, "actor", "user")
		d.Detail = fmt.Sprintf("MemFS, as a non-administrator, /w/t/p mode %04o: RemoveAll(%q) -> %s: %s", o.Perm, o.P, out, detail)
		return d
	}
	if out.Err == "HANG" {
		return mk("hang", out.Note)
	}
	if out.Err == "PANIC" {
		return nil
	}
	after := snapshot(v, kind, true)
	if bad := internal(v); len(bad) > 0 {
		return mk("internal", strings.Join(bad, "; "))
	}
	if bad := apiInvariants(v, kind, after); len(bad) > 0 {
		return mk("api", strings.Join(bad, "; "))
	}
	return nil
}

// trackCwd follows the working directory: Chdir to a path, or File.Chdir on a handle whose
// (physical) path was noted when it was opened.
func trackCwd(snap fsx.Snap, cwd string, opened map[int]string, o fsx.Op, out fsx.Out) string {
	switch {
	case o.K == "Open" && out.Err == "ok":
		opened[o.H] = fsx.Physical(snap, cwd, o.P, true)
	case o.K == "Chdir" && out.Err == "ok":
		return fsx.Physical(snap, cwd, o.P, true)
	case o.K == "FChdir" && out.Err == "ok" && opened[o.H] != "":
		return opened[o.H]
	}
	return cwd
}

func TestCheck(t *testing.T) {
	c := vt.New(t, "C05")
	defer c.Finish()

	for _, f := range c.ReplayFiles() {
		var cs Case
		if err := vt.LoadReplay(f, &cs); err != nil {
			c.Inconclusive("replay " + f + ": " + err.Error())
			continue
		}
		var dev *vt.Deviation
		if cs.Kind == "conc" {
			dev = concDev(c, *cs.Conc, sched.Replay(cs.Conc.Trace))
		} else if cs.Kind == "denied" {
			dev = runDenied(c, cs.Ops[0])
		} else if cs.Kind == "views" {
			dev = runViews(c, cs.Ops, cs.Via)
		} else {
			dev = runSeq(c, cs.FS, cs.Ops)
		}
		if dev != nil {
			if k := c.KnownFor(dev); k != nil {
				c.WitnessLive(k.ID)
			}
			c.Report(dev, cs)
		}
	}
	if c.Replay != "" {
		return
	}

	// (i) bounded-exhaustive: every instance, one call deep, from every start tree
	idx := 0
	for _, kind := range kinds {
		mem := strings.HasPrefix(kind, "MemFS")
		cfg := gen.Config{Symlinks: mem, Root: mem, Base: "/w", NoChown: !mem, NoTemp: true}
		insts := cfg.All(!c.Thorough(), false)
		trees := cfg.StartTrees()
		var names []string
		for n := range trees {
			names = append(names, n)
		}
		sort.Strings(names)
		n := 0
		for _, tn := range names {
			for _, in := range insts {
				idx++
				if idx%c.NShards != c.Shard {
					continue
				}
				ops := append(append([]fsx.Op{}, trees[tn]...), in...)
				n++
				if dev := runSeq(c, kind, ops); dev != nil {
					c.Report(dev, Case{Kind: "seq", FS: kind, Ops: ops})
				}
			}
		}
		c.Extra("exhaustive_"+kind, fmt.Sprintf("%d (start tree, instance) cases of this shard out of %d instances x %d trees", n, len(insts), len(names)))
	}
	// (i-b) names that continue one another ("a", "ab", "a.txt"): a path index keyed by strings must not
	// take a sibling for a descendant
	for _, kind := range kinds {
		pre := []fsx.Op{{K: "Mkdir", P: "/w/a", Perm: 0o755}, {K: "Mkdir", P: "/w/ab", Perm: 0o755}, {K: "WriteFile", P: "/w/a/f", Data: "AF", Perm: 0o644}, {K: "WriteFile", P: "/w/ab/f", Data: "ABF", Perm: 0o644},
			{K: "Link", P: "/w/ab/f", P2: "/w/lf"}, {K: "Mkdir", P: "/w/ab/d", Perm: 0o755}, {K: "WriteFile", P: "/w/ab/d/g", Data: "G", Perm: 0o644}, {K: "WriteFile", P: "/w/a.txt", Data: "T", Perm: 0o644}, {K: "Mkdir", P: "/w/a/b", Perm: 0o755}}
		calls := []fsx.Op{{K: "RemoveAll", P: "/w/a"}, {K: "RemoveAll", P: "/w/ab"}, {K: "RemoveAll", P: "/w/a/b"}, {K: "Rename", P: "/w/a", P2: "/w/z"}, {K: "Rename", P: "/w/ab", P2: "/w/z"}, {K: "Rename", P: "/w/a", P2: "/w/ab/y"},
			{K: "Rename", P: "/w/ab", P2: "/w/a/y"}, {K: "Rename", P: "/w/a", P2: "/w/abc"}, {K: "Remove", P: "/w/a.txt"}, {K: "Rename", P: "/w/a.txt", P2: "/w/a/t"}, {K: "Rename", P: "/w/a/b", P2: "/w/a/bb"}, {K: "Remove", P: "/w/a/b"}}
		for _, call := range calls {
			idx++
			if idx%c.NShards != c.Shard {
				continue
			}
			ops := append(append([]fsx.Op{}, pre...), call, fsx.Op{K: "ReadDir", P: "/w"}, fsx.Op{K: "Lstat", P: "/w/ab/d/g"})
			c.NonTrivial(vt.Hash64(kind, "prefix-names", call.String()))
			if dev := runSeq(c, kind, ops); dev != nil {
				c.Report(dev, Case{Kind: "seq", FS: kind, Ops: ops})
			}
		}
	}
	// (i-c) RemoveAll that is refused part of the way (the one call allowed to leave a changed tree behind):
	// what it leaves is still a tree with exact link counts. A non-administrator removes a directory
	// that holds something he may not empty, with hard links leading in and out of it.
	{
		n := 0
		for _, mode := range []uint32{0o755, 0o555, 0o700, 0o777} {
			for _, target := range []string{"/w/t", "/w/t/p", "/w/t/q", "/w/t/q/r"} {
				n++
				if n%c.NShards != c.Shard {
					continue
				}
				cs := Case{Kind: "denied", FS: "MemFS", Ops: []fsx.Op{{K: "RemoveAll", P: target, Perm: mode}}}
				c.NonTrivial(vt.Hash64("denied", target, fmt.Sprint(mode)))
				if dev := runDenied(c, cs.Ops[0]); dev != nil {
					c.Report(dev, cs)
				}
			}
		}
	}
	c.SetExhaustive(true)

	// (ii) random aliasing histories
	for _, kind := range kinds {
		kind := kind
		mem := strings.HasPrefix(kind, "MemFS")
		cfg := gen.Config{Symlinks: mem, Root: mem, Base: "/w", NoChown: !mem, NoTemp: true}
		c.Rapid("alias-"+kind, c.Pick(2500, 40000), func(t *rapid.T) *vt.Failure {
			v := newFS(kind)
			r := fsx.NewRunner(v)
			r.NoOwner = !mem
			defer r.CloseAll()
			snap := snapshot(v, kind, true)
			cwd := "/"
			opened := map[int]string{}
			var done []fsx.Op
			nAlias := 0
			for n := rapid.IntRange(1, c.Pick(30, 60)).Draw(t, "n"); n > 0; n-- {
				in := drawAliasing(t, cfg, snap)
				for _, o := range in {
					done = append(done, o)
					al := aliasing(snap, cwd, o)
					out, after, dev := step(c, v, r, kind, o, snap, cwd)
					if dev != nil {
						return &vt.Failure{Dev: dev, Replay: Case{Kind: "seq", FS: kind, Ops: done}}
					}
					if al && out.Err != "ENOENT" {
						nAlias++
						c.Label("aliasing-call:" + o.K)
					}
					snap = after
					cwd = trackCwd(snap, cwd, opened, o, out)
				}
			}
			if nAlias >= 1 {
				parts := []string{kind}
				for _, o := range done {
					parts = append(parts, o.String())
				}
				c.NonTrivial(vt.Hash64(parts...))
				c.Sample("alias-"+kind, map[string]any{"fs": kind, "ops": opStrings(done)})
			}
			return nil
		})
	}

	// (ii-b) the same histories with the calls spread over the instance and two Sub("/") views of it
	{
		cfg := gen.Config{Symlinks: true, Root: true, Base: "/w", NoTemp: true}
		c.Rapid("views-MemFS", c.Pick(800, 15000), func(t *rapid.T) *vt.Failure {
			var ops []fsx.Op
			var via []int
			used := map[int]bool{}
			for n := rapid.IntRange(2, c.Pick(25, 50)).Draw(t, "n"); n > 0; n-- {
				w := rapid.IntRange(0, 2).Draw(t, "via")
				for _, o := range cfg.Draw(t) {
					ops, via = append(ops, o), append(via, w)
				}
				used[w] = true
			}
			if dev := runViews(c, ops, via); dev != nil {
				return &vt.Failure{Dev: dev, Replay: Case{Kind: "views", FS: "MemFS", Ops: ops, Via: via}}
			}
			if len(used) >= 2 {
				parts := []string{"views", fmt.Sprint(via)}
				for _, o := range ops {
					parts = append(parts, o.String())
				}
				c.NonTrivial(vt.Hash64(parts...))
				c.Sample("views-MemFS", map[string]any{"ops": opStrings(ops), "via": via})
			}
			return nil
		})
	}

	// (ii') final states of concurrent executions, systematically: every pair of calls that give a
	// name to something (or take it away), aimed at ONE name from different sources, under every
	// schedule with at most 2 pre-emptions - two creators of one name are where a link count
	// and the entries that justify it part company
	for _, kind := range []string{"MemFS", "OrefaFS"} {
		prefix := []fsx.Op{{K: "Mkdir", P: "/w/a", Perm: 0o755}, {K: "Mkdir", P: "/w/b", Perm: 0o755}, {K: "WriteFile", P: "/w/a/x", Data: "AX", Perm: 0o644},
			{K: "WriteFile", P: "/w/b/x", Data: "BX", Perm: 0o644}, {K: "Link", P: "/w/b/x", P2: "/w/b/hl"}, {K: "Mkdir", P: "/w/b/d", Perm: 0o755}}
		hot := "/w/a/y"
		tmpl := [][]fsx.Op{
			{{K: "Link", P: "/w/a/x", P2: hot}}, {{K: "Link", P: "/w/b/x", P2: hot}}, {{K: "Rename", P: "/w/a/x", P2: hot}}, {{K: "Rename", P: "/w/b/x", P2: hot}}, {{K: "Rename", P: "/w/b/hl", P2: hot}},
			{{K: "Mkdir", P: hot, Perm: 0o755}}, {{K: "Rename", P: "/w/b/d", P2: hot}}, {{K: "Open", P: hot, Flag: os.O_WRONLY | os.O_CREATE | os.O_EXCL, Perm: 0o644, H: 0}, {K: "FClose", H: 0}},
			{{K: "Open", P: hot, Flag: os.O_WRONLY | os.O_CREATE | os.O_TRUNC, Perm: 0o644, H: 0}, {K: "FClose", H: 0}}, {{K: "Remove", P: hot}}, {{K: "RemoveAll", P: "/w/a"}}, {{K: "Rename", P: hot, P2: "/w/b/z"}},
		}
		idx, execs := 0, 0
		for a, t1 := range tmpl {
			for b, t2 := range tmpl {
				if b < a {
					continue
				}
				idx++
				if idx%c.NShards != c.Shard {
					continue
				}
				p := conc.Program{FS: kind, Prefix: prefix, Workers: [][]fsx.Op{t1, t2}}
				var pending *conc.Pending
				var first *vt.Deviation
				var trace []int
				n, _ := sched.Explore(func() *sched.Sched {
					pending = conc.Prepare(p)
					return pending.S
				}, 2, c.Pick(150, 1500), func(v sched.Verdict) bool {
					res := pending.Finish(v)
					c.Eval(1)
					if v.Contended && v.Preempt > 0 {
						c.NonTrivial(vt.Hash64(p.String(), fmt.Sprint(v.Trace)))
					}
					if dev := concResultDev(p, res); dev != nil && first == nil {
						first, trace = dev, v.Trace
						return false
					}
					return true
				})
				execs += n
				if first != nil {
					p.Trace = trace
					c.Report(first, Case{Kind: "conc", FS: kind, Conc: &p})
				}
			}
		}
		c.Extra("systematic_same_name_"+kind, fmt.Sprintf("%d scheduled executions of pairs of %d templates aimed at one name (this shard)", execs, len(tmpl)))
	}

	// (iii) final states of concurrent executions (random programs and schedules)
	for _, kind := range []string{"MemFS", "OrefaFS"} {
		kind := kind
		calls := conc.Calls(kind, false)
		prefixes := conc.Prefixes(kind)
		var pn []string
		for n := range prefixes {
			pn = append(pn, n)
		}
		sort.Strings(pn)
		c.Rapid("conc-"+kind, c.Pick(4000, 80000), func(t *rapid.T) *vt.Failure {
			p := conc.Program{FS: kind, Prefix: prefixes[rapid.SampledFrom(pn).Draw(t, "prefix")]}
			for w := rapid.IntRange(2, 3).Draw(t, "workers"); w > 0; w-- {
				var ops []fsx.Op
				for k := rapid.IntRange(1, 3).Draw(t, "calls"); k > 0; k-- {
					ops = append(ops, calls[rapid.IntRange(0, len(calls)-1).Draw(t, "call")]...)
				}
				p.Workers = append(p.Workers, ops)
			}
			choices := rapid.SliceOfN(rapid.IntRange(0, 7), 0, 80).Draw(t, "schedule")
			chooser := func(step int, en []sched.Choice, prev int, prevEnabled bool) int {
				if step < len(choices) {
					return choices[step] % len(en)
				}
				return sched.NonPreemptive(step, en, prev, prevEnabled)
			}
			p.Trace = nil
			res, err := conc.Execute(p, chooser)
			if err != nil {
				return nil
			}
			c.Eval(1)
			if res.Verdict.Kind == "ok" && res.Verdict.Contended {
				c.NonTrivial(vt.Hash64(p.String(), fmt.Sprint(res.Verdict.Trace)))
			}
			if dev := concResultDev(p, res); dev != nil {
				p.Trace = res.Verdict.Trace
				return &vt.Failure{Dev: dev, Replay: Case{Kind: "conc", FS: kind, Conc: &p}}
			}
			return nil
		})
	}
}

func concResultDev(p conc.Program, res *conc.Result) *vt.Deviation {
	if res.Verdict.Kind != "ok" || len(res.Invariant) == 0 {
		return nil
	}
	d := vt.Dev("prop", "C05", "fs", p.FS, "op", p.Kinds(), "clause", "internal-after-concurrent")
	d.Detail = fmt.Sprintf("%s under schedule %v: %s", p, res.Verdict.Trace, strings.Join(res.Invariant, "; "))
	return d
}

func concDev(c *vt.Ctx, p conc.Program, ch sched.Chooser) *vt.Deviation {
	res, err := conc.Execute(p, ch)
	if err != nil {
		c.Inconclusive("replay: " + err.Error())
		return nil
	}
	return concResultDev(p, res)
}

func opStrings(ops []fsx.Op) []string {
	var r []string
	for _, o := range ops {
		r = append(r, o.String())
	}
	return r
}
