//go:build verif

// C15 - the in-memory identity manager stays consistent.
package c15

import (
	"encoding/json"
	"errors"
	"fmt"
	"os"
	"path/filepath"
	"sort"
	"strings"
	"sync"
	"testing"
	"time"

	"github.com/avfs/avfs"
	"github.com/avfs/avfs/idm/memidm"
	"pgregory.net/rapid"

	"verif/harness/internal/racelog"
	"verif/harness/internal/sched"
	"verif/harness/internal/vt"
)

// Call is one identity-manager call, as data.
type Call struct {
	M string `json:"m"` // AddGroup AddUser DelGroup DelUser LookupGroup LookupUser LookupGroupId LookupUserId
	A string `json:"a,omitempty"`
	B string `json:"b,omitempty"`
	N int    `json:"n,omitempty"`
}

func (c Call) String() string {
	switch c.M {
	case "AddUser":
		return fmt.Sprintf("AddUser(%q,%q)", c.A, c.B)
	case "LookupGroupId", "LookupUserId":
		return fmt.Sprintf("%s(%d)", c.M, c.N)
	}
	return fmt.Sprintf("%s(%q)", c.M, c.A)
}

// Case is a replayable C15 case.
type Case struct {
	Kind    string   `json:"kind"` // seq | conc | free (free-running under the race detector)
	Calls   []Call   `json:"calls,omitempty"`
	Workers [][]Call `json:"workers,omitempty"`
	Trace   []int    `json:"trace,omitempty"`
	Win     bool     `json:"win,omitempty"` // the identity manager emulates Windows
}

var names = []string{"u1", "u2", "g1", "g2", "root", ""}

// model is the two-map reference: name->id for users and groups (id->name is
// its inverse by construction), plus the ids ever handed out.
type model struct {
	users     map[string][2]int // name -> uid, gid
	groups    map[string]int
	usedUids  map[int]string
	usedGids  map[int]string
	nextUid   int
	nextGid   int
	unknownID bool // ids are not predicted, only checked for freshness
}

func newModel() *model {
	return &model{users: map[string][2]int{"root": {0, 0}}, groups: map[string]int{"root": 0}, usedUids: map[int]string{0: "root"}, usedGids: map[int]string{0: "root"}}
}

func (m *model) clone() *model {
	n := newModel()
	n.users, n.groups = map[string][2]int{}, map[string]int{}
	n.usedUids, n.usedGids = map[int]string{}, map[int]string{}
	for k, v := range m.users {
		n.users[k] = v
	}
	for k, v := range m.groups {
		n.groups[k] = v
	}
	for k, v := range m.usedUids {
		n.usedUids[k] = v
	}
	for k, v := range m.usedGids {
		n.usedGids[k] = v
	}
	return n
}

// errKind abstracts the documented error types.
func errKind(err error) string {
	var (
		aeg avfs.AlreadyExistsGroupError
		aeu avfs.AlreadyExistsUserError
		ug  avfs.UnknownGroupError
		uu  avfs.UnknownUserError
		ugi avfs.UnknownGroupIdError
		uui avfs.UnknownUserIdError
	)
	switch {
	case err == nil:
		return "ok"
	case errors.As(err, &aeg):
		return "group-exists:" + string(aeg)
	case errors.As(err, &aeu):
		return "user-exists:" + string(aeu)
	case errors.As(err, &ug):
		return "unknown-group:" + string(ug)
	case errors.As(err, &uu):
		return "unknown-user:" + string(uu)
	case errors.As(err, &ugi):
		return fmt.Sprintf("unknown-gid:%d", int(ugi))
	case errors.As(err, &uui):
		return fmt.Sprintf("unknown-uid:%d", int(uui))
	}
	return "other:" + err.Error()
}

// winNames: the identity manager under test emulates Windows. The model and the histories
// keep speaking of "root" (user and group); the two documented Windows names are substituted
// per name space on the way in and back on the way out.
var winNames bool

const (
	winAdminUser  = "ContainerAdministrator"
	winAdminGroup = "Administrators"
)

func newIdm() *memidm.MemIdm {
	if winNames {
		return memidm.NewWithOptions(&memidm.Options{OSType: avfs.OsWindows})
	}
	return memidm.NewWithOptions(&memidm.Options{OSType: avfs.OsLinux})
}

func userName(n string) string {
	if winNames && n == "root" {
		return winAdminUser
	}
	return n
}

func groupName(n string) string {
	if winNames && n == "root" {
		return winAdminGroup
	}
	return n
}

func backNames(s string) string {
	if winNames {
		s = strings.ReplaceAll(strings.ReplaceAll(s, winAdminUser, "root"), winAdminGroup, "root")
	}
	return s
}

func apply(idm avfs.IdentityMgr, c Call) (string, int, int) {
	switch c.M {
	case "AddGroup", "DelGroup", "LookupGroup":
		c.A = groupName(c.A)
	case "AddUser":
		c.A, c.B = userName(c.A), groupName(c.B)
	case "DelUser", "LookupUser":
		c.A = userName(c.A)
	}
	r, u, g := applyRaw(idm, c)
	return backNames(r), u, g
}

// applyRaw runs the call on the real identity manager and renders the result
// with ids abstracted to "fresh"/"known" where the model cannot predict them.
func applyRaw(idm avfs.IdentityMgr, c Call) (res string, uid, gid int) {
	uid, gid = -1, -1
	switch c.M {
	case "AddGroup":
		g, err := idm.AddGroup(c.A)
		if err != nil {
			return errKind(err), uid, gid
		}
		return fmt.Sprintf("ok group %s", g.Name()), uid, g.Gid()
	case "AddUser":
		u, err := idm.AddUser(c.A, c.B)
		if err != nil {
			return errKind(err), uid, gid
		}
		return fmt.Sprintf("ok user %s admin=%v", u.Name(), u.IsAdmin()), u.Uid(), u.Gid()
	case "DelGroup":
		return errKind(idm.DelGroup(c.A)), uid, gid
	case "DelUser":
		return errKind(idm.DelUser(c.A)), uid, gid
	case "LookupGroup":
		g, err := idm.LookupGroup(c.A)
		if err != nil {
			return errKind(err), uid, gid
		}
		return fmt.Sprintf("ok group %s", g.Name()), uid, g.Gid()
	case "LookupUser":
		u, err := idm.LookupUser(c.A)
		if err != nil {
			return errKind(err), uid, gid
		}
		return fmt.Sprintf("ok user %s admin=%v", u.Name(), u.IsAdmin()), u.Uid(), u.Gid()
	case "LookupGroupId":
		g, err := idm.LookupGroupId(c.N)
		if err != nil {
			return errKind(err), uid, gid
		}
		return fmt.Sprintf("ok group %s", g.Name()), uid, g.Gid()
	case "LookupUserId":
		u, err := idm.LookupUserId(c.N)
		if err != nil {
			return errKind(err), uid, gid
		}
		return fmt.Sprintf("ok user %s admin=%v", u.Name(), u.IsAdmin()), u.Uid(), u.Gid()
	}
	return "harness:unknown", uid, gid
}

// expect computes what the model says the call returns and updates the model;
// uid/gid are the ids the implementation handed out (checked for freshness).
func (m *model) expect(c Call, uid, gid int) (string, string) {
	switch c.M {
	case "AddGroup":
		if _, ok := m.groups[c.A]; ok {
			return "group-exists:" + c.A, ""
		}
		if old, used := m.usedGids[gid]; used {
			return "ok group " + c.A, fmt.Sprintf("gid %d handed out again (was %q)", gid, old)
		}
		m.groups[c.A] = gid
		m.usedGids[gid] = c.A
		return "ok group " + c.A, ""
	case "AddUser":
		g, ok := m.groups[c.B]
		if !ok {
			return "unknown-group:" + c.B, ""
		}
		if _, ok := m.users[c.A]; ok {
			return "user-exists:" + c.A, ""
		}
		problem := ""
		if old, used := m.usedUids[uid]; used {
			problem = fmt.Sprintf("uid %d handed out again (was %q)", uid, old)
		}
		if gid != g {
			problem = fmt.Sprintf("user %q got gid %d, group %q has gid %d", c.A, gid, c.B, g)
		}
		m.users[c.A] = [2]int{uid, g}
		m.usedUids[uid] = c.A
		// a user is an administrator exactly when it is the administrator user
		// (uid 0, which is never handed out again), whatever its name or group
		return fmt.Sprintf("ok user %s admin=%v", c.A, false), problem
	case "DelGroup":
		if _, ok := m.groups[c.A]; !ok {
			return "unknown-group:" + c.A, ""
		}
		delete(m.groups, c.A)
		return "ok", ""
	case "DelUser":
		if _, ok := m.users[c.A]; !ok {
			return "unknown-user:" + c.A, ""
		}
		delete(m.users, c.A)
		return "ok", ""
	case "LookupGroup":
		if _, ok := m.groups[c.A]; !ok {
			return "unknown-group:" + c.A, ""
		}
		return "ok group " + c.A, ""
	case "LookupUser":
		u, ok := m.users[c.A]
		if !ok {
			return "unknown-user:" + c.A, ""
		}
		return fmt.Sprintf("ok user %s admin=%v", c.A, u[0] == 0), ""
	case "LookupGroupId":
		for n, g := range m.groups {
			if g == c.N {
				return "ok group " + n, ""
			}
		}
		return fmt.Sprintf("unknown-gid:%d", c.N), ""
	case "LookupUserId":
		for n, u := range m.users {
			if u[0] == c.N {
				return fmt.Sprintf("ok user %s admin=%v", n, u[0] == 0), ""
			}
		}
		return fmt.Sprintf("unknown-uid:%d", c.N), ""
	}
	return "harness:unknown", ""
}

// table renders all four lookups over the whole pool and the id range: the
// observable state of the identity manager.
func table(idm avfs.IdentityMgr, ids []int) string {
	var rows []string
	for _, n := range names {
		r1, u, g := apply(idm, Call{M: "LookupUser", A: n})
		rows = append(rows, fmt.Sprintf("U %q: %s uid=%d gid=%d", n, r1, u, g))
		r2, _, g2 := apply(idm, Call{M: "LookupGroup", A: n})
		rows = append(rows, fmt.Sprintf("G %q: %s gid=%d", n, r2, g2))
	}
	for _, id := range ids {
		r1, _, _ := apply(idm, Call{M: "LookupUserId", N: id})
		r2, _, _ := apply(idm, Call{M: "LookupGroupId", N: id})
		rows = append(rows, fmt.Sprintf("uid %d: %s | gid %d: %s", id, r1, id, r2))
	}
	return strings.Join(rows, "\n")
}

func (m *model) table(ids []int) string {
	var rows []string
	for _, n := range names {
		if u, ok := m.users[n]; ok {
			rows = append(rows, fmt.Sprintf("U %q: ok user %s admin=%v uid=%d gid=%d", n, n, u[0] == 0, u[0], u[1]))
		} else {
			rows = append(rows, fmt.Sprintf("U %q: unknown-user:%s uid=-1 gid=-1", n, n))
		}
		if g, ok := m.groups[n]; ok {
			rows = append(rows, fmt.Sprintf("G %q: ok group %s gid=%d", n, n, g))
		} else {
			rows = append(rows, fmt.Sprintf("G %q: unknown-group:%s gid=-1", n, n))
		}
	}
	for _, id := range ids {
		r1, _ := m.clone().expect(Call{M: "LookupUserId", N: id}, 0, 0)
		r2, _ := m.clone().expect(Call{M: "LookupGroupId", N: id}, 0, 0)
		rows = append(rows, fmt.Sprintf("uid %d: %s | gid %d: %s", id, r1, id, r2))
	}
	return strings.Join(rows, "\n")
}

var idRange = []int{-1, 0, 1, 999, 1000, 1001, 1002, 1003, 1004, 1005}

func runSeq(c *vt.Ctx, calls []Call) *vt.Deviation {
	idm := newIdm()
	m := newModel()
	mk := func(cl Call, clause, detail string) *vt.Deviation {
		d := vt.Dev("prop", "C15", "op", cl.M, "clause", clause)
		d.Detail = fmt.Sprintf("after %v: %s", calls, detail)
		return d
	}
	// construction: administrator user and group with id 0
	if t, mt := table(idm, idRange), m.table(idRange); t != mt {
		return mk(Call{M: "New"}, "initial", fmt.Sprintf("fresh MemIdm lookups\n%s\nmodel\n%s", t, mt))
	}
	if !idm.AdminUser().IsAdmin() || idm.AdminUser().Uid() != 0 || idm.AdminGroup().Gid() != 0 {
		return mk(Call{M: "New"}, "initial", "administrator user/group are not id 0")
	}
	for i, cl := range calls {
		c.Eval(1)
		got, uid, gid := apply(idm, cl)
		want, problem := m.expect(cl, uid, gid)
		if got != want {
			return mk(cl, "result", fmt.Sprintf("call %d %s returned %q, model %q", i, cl, got, want))
		}
		if problem != "" {
			return mk(cl, "ids", problem)
		}
		if t, mt := table(idm, idRange), m.table(idRange); t != mt {
			return mk(cl, "lookups", fmt.Sprintf("after call %d %s the lookups are\n%s\nmodel\n%s", i, cl, t, mt))
		}
		if bad := memidm.VerifCheck(idm); len(bad) > 0 {
			return mk(cl, "internal", strings.Join(bad, "; "))
		}
	}
	return nil
}

func drawCall(t *rapid.T) Call {
	m := rapid.SampledFrom([]string{"AddGroup", "AddUser", "AddUser", "DelGroup", "DelUser", "LookupGroup", "LookupUser", "LookupGroupId", "LookupUserId"}).Draw(t, "m")
	c := Call{M: m}
	switch m {
	case "LookupGroupId", "LookupUserId":
		c.N = rapid.SampledFrom(idRange).Draw(t, "id")
	case "AddUser":
		c.A = rapid.SampledFrom(names).Draw(t, "name")
		c.B = rapid.SampledFrom(names).Draw(t, "group")
	default:
		c.A = rapid.SampledFrom(names).Draw(t, "name")
	}
	return c
}

func nontrivial(calls []Call) bool {
	deleted := map[string]bool{}
	for _, c := range calls {
		switch c.M {
		case "DelUser", "DelGroup":
			deleted[c.M[3:]+c.A] = true
		case "AddUser":
			if deleted["User"+c.A] || c.B == "root" {
				return true
			}
		case "AddGroup":
			if deleted["Group"+c.A] {
				return true
			}
		}
	}
	return false
}

func TestCheck(t *testing.T) {
	c := vt.New(t, "C15")
	defer c.Finish()
	for _, f := range c.ReplayFiles() {
		var cs Case
		if err := vt.LoadReplay(f, &cs); err != nil {
			c.Inconclusive("replay " + f + ": " + err.Error())
			continue
		}
		var dev *vt.Deviation
		winNames = cs.Win
		switch cs.Kind {
		case "conc":
			dev, _ = runConc(c, cs.Workers, sched.Replay(cs.Trace))
		case "free":
			if devs := runFree(c, cs.Workers, 200); len(devs) > 0 {
				dev = devs[0]
			}
		default:
			dev = runSeq(c, cs.Calls)
		}
		if dev != nil {
			if k := c.KnownFor(dev); k != nil {
				c.WitnessLive(k.ID)
			}
			c.Report(dev, cs)
		}
	}
	winNames = false
	if c.Replay != "" {
		return
	}

	// the same histories on an identity manager that emulates Windows (other administrator names)
	winNames = true
	c.Rapid("seq-windows", c.Pick(1500, 30000), func(t *rapid.T) *vt.Failure {
		var calls []Call
		for n := rapid.IntRange(1, 25).Draw(t, "n"); n > 0; n-- {
			calls = append(calls, drawCall(t))
		}
		if dev := runSeq(c, calls); dev != nil {
			dev.Fields["os"] = "windows"
			return &vt.Failure{Dev: dev, Replay: Case{Kind: "seq", Calls: calls, Win: true}}
		}
		if nontrivial(calls) {
			c.NonTrivial(vt.Hash64("win", fmt.Sprint(calls)))
		}
		return nil
	})
	winNames = false

	// sequential histories against the model
	c.Rapid("seq", c.Pick(5000, 100000), func(t *rapid.T) *vt.Failure {
		var calls []Call
		for n := rapid.IntRange(1, 25).Draw(t, "n"); n > 0; n-- {
			calls = append(calls, drawCall(t))
		}
		for _, cl := range calls {
			c.Label("call:" + cl.M)
		}
		if dev := runSeq(c, calls); dev != nil {
			return &vt.Failure{Dev: dev, Replay: Case{Kind: "seq", Calls: calls}}
		}
		if nontrivial(calls) {
			c.NonTrivial(vt.Hash64(fmt.Sprint(calls)))
			c.Sample("seq", map[string]any{"calls": fmt.Sprint(calls)})
		}
		return nil
	})

	// bounded-exhaustive: all histories of 3 mutators over 2 names (after a fixed prefix)
	muts := []Call{}
	for _, n := range []string{"u1", "g1", "root"} {
		muts = append(muts, Call{M: "AddGroup", A: n}, Call{M: "DelGroup", A: n}, Call{M: "DelUser", A: n})
		for _, g := range []string{"g1", "root", "zz"} {
			muts = append(muts, Call{M: "AddUser", A: n, B: g})
		}
	}
	idx := 0
	for _, a := range muts {
		for _, b := range muts {
			for _, d := range muts {
				idx++
				if idx%c.NShards != c.Shard {
					continue
				}
				calls := []Call{a, b, d}
				if dev := runSeq(c, calls); dev != nil {
					c.Report(dev, Case{Kind: "seq", Calls: calls})
				}
				if nontrivial(calls) {
					c.NonTrivial(vt.Hash64(fmt.Sprint(calls)))
				}
			}
		}
	}
	c.Extra("exhaustive_space", fmt.Sprintf("all %d^3 histories of mutators over names {u1,g1,root} x groups {g1,root,zz}", len(muts)))
	c.SetExhaustive(true)

	// concurrent: 2 workers x 1-2 calls, all schedules with <= 3 pre-emptions
	cm := []Call{{M: "AddGroup", A: "g1"}, {M: "DelGroup", A: "g1"}, {M: "AddUser", A: "u1", B: "g1"}, {M: "AddUser", A: "u1", B: "root"}, {M: "DelUser", A: "u1"},
		{M: "LookupUser", A: "u1"}, {M: "LookupGroup", A: "g1"}, {M: "LookupUserId", N: 1001}, {M: "LookupGroupId", N: 1001}, {M: "AddUser", A: "u2", B: "g1"},
		// g2 exists from the start: a user can be added to it while it is being deleted
		{M: "AddUser", A: "u1", B: "g2"}, {M: "DelGroup", A: "g2"}}
	idx = 0
	execs := 0
	for _, a := range cm {
		for _, b := range cm {
			for _, d := range cm {
				idx++
				if idx%c.NShards != c.Shard {
					continue
				}
				ws := [][]Call{{a, b}, {d}}
				var first *vt.Deviation
				var trace []int
				n, _ := sched.Explore(func() *sched.Sched { return prepare(ws).s }, c.Pick(2, 3), c.Pick(200, 3000), func(v sched.Verdict) bool {
					dev := finish(c, ws, v)
					if dev != nil && first == nil {
						first, trace = dev, v.Trace
						return false
					}
					return true
				})
				execs += n
				if first != nil {
					c.Report(first, Case{Kind: "conc", Workers: ws, Trace: trace})
				}
			}
		}
	}
	c.Extra("concurrent", fmt.Sprintf("%d scheduled executions of 2-worker programs over %d calls (this shard)", execs, len(cm)))

	c.Rapid("conc-random", c.Pick(1500, 40000), func(t *rapid.T) *vt.Failure {
		var ws [][]Call
		for w := rapid.IntRange(2, 3).Draw(t, "workers"); w > 0; w-- {
			var cs []Call
			for n := rapid.IntRange(1, 3).Draw(t, "n"); n > 0; n-- {
				cs = append(cs, drawCall(t))
			}
			ws = append(ws, cs)
		}
		choices := rapid.SliceOfN(rapid.IntRange(0, 5), 0, 40).Draw(t, "schedule")
		dev, tr := runConc(c, ws, func(step int, en []sched.Choice, prev int, pe bool) int {
			if step < len(choices) {
				return choices[step] % len(en)
			}
			return sched.NonPreemptive(step, en, prev, pe)
		})
		if dev != nil {
			return &vt.Failure{Dev: dev, Replay: Case{Kind: "conc", Workers: ws, Trace: tr}}
		}
		return nil
	})

	// free-running on all cores under the race detector: the scheduler above interleaves at
	// lock acquisitions, so state that is touched under the wrong mutex, or under none, looks
	// atomic to it; the race detector sees exactly that.
	if racelog.Path() == "" {
		c.Inconclusive("not started by bin/check with the race detector: the free-running tier did not run")
		return
	}
	c.Rapid("free-run", c.Pick(150, 4000), func(t *rapid.T) *vt.Failure {
		var ws [][]Call
		for w := rapid.IntRange(2, 6).Draw(t, "workers"); w > 0; w-- {
			var cs []Call
			for n := rapid.IntRange(2, 10).Draw(t, "n"); n > 0; n-- {
				cs = append(cs, drawCall(t))
			}
			ws = append(ws, cs)
		}
		if devs := runFree(c, ws, 8); len(devs) > 0 {
			return &vt.Failure{Dev: devs[0], Replay: Case{Kind: "free", Workers: ws}}
		}
		c.NonTrivial(vt.Hash64("free", fmt.Sprint(ws)))
		c.Sample("free-run", map[string]any{"workers": len(ws), "first": fmt.Sprint(ws[0])})
		return nil
	})
}

// runFree runs the workers as free goroutines on one fresh MemIdm, runs times, and returns
// the data races reported meanwhile and any disagreement between lookups by name and by id
// left behind. The program is journalled first: a runtime fatal error (concurrent map
// access) kills the process and the driver reports the journal as the replay.
// freeStalled: a free-running program did not finish (its goroutines are parked for good): every
// further program on this process would wait the same 45 s; the tier stops.
var freeStalled bool

func runFree(c *vt.Ctx, ws [][]Call, runs int) []*vt.Deviation {
	if freeStalled {
		return nil
	}
	if c.OutDir != "" {
		b, _ := json.Marshal(map[string]any{"property": "C15", "case": Case{Kind: "free", Workers: ws}})
		_ = os.WriteFile(filepath.Join(c.OutDir, fmt.Sprintf("journal-%d.json", c.Shard)), b, 0o644)
	}
	before := racelog.Size()
	var devs []*vt.Deviation
	for r := 0; r < runs && len(devs) == 0; r++ {
		c.Eval(1)
		idm := newIdm()
		start := make(chan struct{})
		var wg sync.WaitGroup
		for _, w := range ws {
			w := w
			wg.Add(1)
			go func() {
				defer wg.Done()
				defer func() { _ = recover() }()
				<-start
				for _, cl := range w {
					apply(idm, cl)
				}
			}()
		}
		close(start)
		done := make(chan struct{})
		go func() { wg.Wait(); close(done) }()
		select {
		case <-done:
		case <-time.After(45 * time.Second):
			c.Inconclusive("free-running identity-manager program did not finish within 45 s (the deterministic tiers above decide deadlocks)")
			freeStalled = true
			return devs
		}
		// by name and by id must agree on what is left
		for _, n := range names {
			if u, err := idm.LookupUser(n); err == nil {
				if v, err := idm.LookupUserId(u.Uid()); err != nil || v.Name() != n {
					d := vt.Dev("prop", "C15", "clause", "free-run-agreement", "op", "LookupUser")
					d.Detail = fmt.Sprintf("after the free-running program %v: user %q has uid %d, LookupUserId(%d) = %v, %v", ws, n, u.Uid(), u.Uid(), v, err)
					devs = append(devs, d)
				}
			}
			if g, err := idm.LookupGroup(n); err == nil {
				if h, err := idm.LookupGroupId(g.Gid()); err != nil || h.Name() != n {
					d := vt.Dev("prop", "C15", "clause", "free-run-agreement", "op", "LookupGroup")
					d.Detail = fmt.Sprintf("after the free-running program %v: group %q has gid %d, LookupGroupId(%d) = %v, %v", ws, n, g.Gid(), g.Gid(), h, err)
					devs = append(devs, d)
				}
			}
		}
	}
	for _, pair := range racelog.Since(before) {
		d := vt.Dev("prop", "C15", "clause", "race", "pair", pair)
		d.Detail = fmt.Sprintf("data race between %s while %d goroutines used one MemIdm: %v", pair, len(ws), ws)
		devs = append(devs, d)
	}
	return devs
}

// ---- concurrent executions

type pending struct {
	s    *sched.Sched
	idm  *memidm.MemIdm
	outs [][]string
	ids  [][][2]int
}

var last *pending

func prepare(ws [][]Call) *pending {
	p := &pending{idm: newIdm(), outs: make([][]string, len(ws)), ids: make([][][2]int, len(ws))}
	// fixed prefix so that deletes and lookups have something to meet
	_, _ = p.idm.AddGroup("g2")
	var progs []func()
	for i := range ws {
		i := i
		p.outs[i] = make([]string, len(ws[i]))
		p.ids[i] = make([][2]int, len(ws[i]))
		progs = append(progs, func() {
			for j, cl := range ws[i] {
				r, u, g := apply(p.idm, cl)
				p.outs[i][j] = r
				p.ids[i][j] = [2]int{u, g}
			}
		})
	}
	p.s = sched.New(progs...)
	last = p
	return p
}

// finish judges one concurrent execution: outcomes and final lookup table
// must equal those of some sequential order applied to the model.
func finish(c *vt.Ctx, ws [][]Call, v sched.Verdict) *vt.Deviation {
	p := last
	c.Eval(1)
	kinds := func() string {
		var ks []string
		for _, w := range ws {
			var k []string
			for _, cl := range w {
				k = append(k, cl.M)
			}
			ks = append(ks, strings.Join(k, ","))
		}
		sort.Strings(ks)
		return strings.Join(ks, "+")
	}
	mk := func(clause, detail string) *vt.Deviation {
		d := vt.Dev("prop", "C15", "op", kinds(), "clause", clause)
		d.Detail = fmt.Sprintf("%v schedule %v: %s", ws, v.Trace, detail)
		return d
	}
	if v.Kind != "ok" {
		return mk("returns:"+v.Kind, v.Detail)
	}
	if v.Contended && v.Preempt > 0 {
		c.NonTrivial(vt.Hash64(fmt.Sprint(ws), fmt.Sprint(v.Trace)))
	}
	if bad := memidm.VerifCheck(p.idm); len(bad) > 0 {
		return mk("internal", strings.Join(bad, "; "))
	}
	got := fmt.Sprint(p.outs) + "\n" + table(p.idm, idRange)
	// enumerate sequential orders on the model, using the ids the execution handed out
	found := false
	idx := make([]int, len(ws))
	var rec func(m *model, outs [][]string) bool
	total := 0
	for _, w := range ws {
		total += len(w)
	}
	done := 0
	rec = func(m *model, outs [][]string) bool {
		if done == total {
			return fmt.Sprint(outs)+"\n"+m.table(idRange) == got
		}
		for w := range ws {
			if idx[w] < len(ws[w]) {
				j := idx[w]
				m2 := m.clone()
				want, problem := m2.expect(ws[w][j], p.ids[w][j][0], p.ids[w][j][1])
				if problem != "" || want != p.outs[w][j] {
					continue
				}
				idx[w]++
				done++
				outs[w][j] = want
				ok := rec(m2, outs)
				done--
				idx[w]--
				if ok {
					return true
				}
			}
		}
		return false
	}
	m0 := newModel()
	m0.groups["g2"] = 1001
	m0.usedGids[1001] = "g2"
	outs := make([][]string, len(ws))
	for i := range ws {
		outs[i] = make([]string, len(ws[i]))
	}
	found = rec(m0, outs)
	if !found {
		return mk("nonlinearizable", "outcomes and final lookups\n"+got+"\nmatch no sequential order of the model")
	}
	return nil
}

func runConc(c *vt.Ctx, ws [][]Call, ch sched.Chooser) (*vt.Deviation, []int) {
	p := prepare(ws)
	v := p.s.Run(ch)
	return finish(c, ws, v), v.Trace
}
