// C01 - emulated namespace operations behave as on the real Linux file system.
package c01

import (
	"fmt"
	"sort"
	"strings"
	"testing"

	"pgregory.net/rapid"

	"verif/harness/internal/fsx"
	"verif/harness/internal/gen"
	"verif/harness/internal/kernel"
	"verif/harness/internal/vt"
	"verif/harness/internal/world"
)

// Case is a replayable C01 case.
type Case struct {
	Kind  string   `json:"kind"` // "kernel" (lock-step with the kernel) or "unclean" (metamorphic twin)
	FS    string   `json:"fs"`
	Umask int      `json:"umask"`
	Ops   []fsx.Op `json:"ops"`
}

func cfgFor(kind string) gen.Config {
	return gen.Config{Symlinks: kind == "MemFS", Root: kind == "MemFS", Base: "/w", NoChown: false}
}

// steered reports the id of the open known finding whose situation (the
// pattern without its outcome fields) matches the op about to be issued.
func steered(c *vt.Ctx, sit map[string]string) string {
	id, _ := steeredAlways(c, sit)
	return id
}

// steeredAlways also reports whether the matching entry must never be issued
// in a multi-step history (its deviation can be silent and cascade).
func steeredAlways(c *vt.Ctx, sit map[string]string) (string, bool) {
	d := &vt.Deviation{Fields: sit}
	for _, k := range c.OpenKnown() {
		m := map[string]string{}
		for f, p := range k.Match {
			if f == "expected" || f == "observed" {
				continue
			}
			m[f] = p
		}
		if !hasSituation(m) { // only prop/fs constrained: not a situation, cannot steer
			continue
		}
		kk := *k
		kk.Match = m
		if kk.MatchesSituation(d) {
			return k.ID, k.Steer == "always"
		}
	}
	return "", false
}

// runOps executes ops in lock-step and returns the first deviation.
func runOps(c *vt.Ctx, w *world.World, ops []fsx.Op, stats *caseStats) *vt.Deviation {
	for _, o := range ops {
		_, ok, dev := w.Step("C01", o)
		c.Eval(1)
		if stats != nil {
			stats.note(o, ok)
		}
		if dev != nil {
			return dev
		}
	}
	return nil
}

type caseStats struct {
	mutOK, failNonENOENT int
	types                map[string]bool
	labels               []string
}

var mutating = map[string]bool{"Mkdir": true, "MkdirAll": true, "Open": true, "Create": true, "WriteFile": true, "CreateTemp": true, "MkdirTemp": true,
	"Remove": true, "RemoveAll": true, "Rename": true, "Link": true, "Symlink": true, "Truncate": true, "Chmod": true, "Chown": true, "Lchown": true, "Chtimes": true}

func (s *caseStats) note(o fsx.Op, ref fsx.Out) {
	if mutating[o.K] && ref.Err == "ok" {
		s.mutOK++
	}
	if ref.Err != "ok" && ref.Err != "ENOENT" && ref.Err != "EOF" {
		s.failNonENOENT++
	}
}

func typesIn(s fsx.Snap) int {
	m := map[string]bool{}
	for _, r := range s {
		if strings.HasPrefix(r.Path, "/w/") {
			m[r.Type] = true
		}
	}
	return len(m)
}

func opsKey(fs string, umask int, ops []fsx.Op) uint64 {
	parts := []string{fs, fmt.Sprint(umask)}
	for _, o := range ops {
		parts = append(parts, o.String())
	}
	return vt.Hash64(parts...)
}

func TestCheck(t *testing.T) {
	c := vt.New(t, "C01")
	defer c.Finish()
	kt, err := kernel.New("/dev/shm")
	if err != nil {
		c.Inconclusive("kernel oracle unavailable: " + err.Error())
		return
	}
	defer kt.Close()

	// 1. replays (known-finding witnesses, fixed-defect regressions, earlier shrunk failures)
	for _, f := range c.ReplayFiles() {
		var cs Case
		if err := vt.LoadReplay(f, &cs); err != nil {
			c.Inconclusive("replay " + f + ": " + err.Error())
			continue
		}
		if dev := replay(c, kt, cs); dev != nil {
			if k := c.KnownFor(dev); k != nil {
				c.WitnessLive(k.ID)
			}
			c.Report(dev, cs)
		}
	}
	if c.Replay != "" {
		return
	}

	kinds := []string{"MemFS", "OrefaFS"}

	// 2. bounded-exhaustive: every instance, one call deep, from each canonical start tree
	for _, kind := range kinds {
		cfg := cfgFor(kind)
		insts := cfg.All(!c.Thorough(), true)
		trees := cfg.StartTrees()
		names := make([]string, 0, len(trees))
		for n := range trees {
			names = append(names, n)
		}
		sort.Strings(names)
		idx := 0
		for _, tn := range names {
			for _, umask := range []int{0o022, 0o077} {
				if umask != 0o022 && !c.Thorough() && tn != "dirfile" {
					continue
				}
				for _, in := range insts {
					idx++
					if idx%c.NShards != c.Shard {
						continue
					}
					one(c, kt, kind, umask, trees[tn], in, "exh1:"+tn)
				}
			}
		}
		c.Extra("exhaustive_1call_"+kind, fmt.Sprintf("%d instances x %d start trees", len(insts), len(names)))
	}
	c.SetExhaustive(true)

	// 3. random histories
	for _, kind := range kinds {
		kind := kind
		cfg := cfgFor(kind)
		c.Rapid("hist-"+kind, c.Pick(150, 3000), func(t *rapid.T) *vt.Failure {
			umask := rapid.SampledFrom([]int{0o022, 0o022, 0, 0o027, 0o077}).Draw(t, "umask")
			unsteered := rapid.IntRange(0, 9).Draw(t, "unsteered") == 0
			n := rapid.IntRange(1, c.Pick(40, 120)).Draw(t, "n")
			w, err := world.New(kt, kind, umask)
			if err != nil {
				c.Inconclusive("world: " + err.Error())
				return nil
			}
			defer w.Close()
			var done []fsx.Op
			st := &caseStats{}
			maxTypes := 0
			for i := 0; i < n; i++ {
				in := cfg.Draw(t)
				sit := w.Situation("C01", in[0])
				if id, always := steeredAlways(c, sit); id != "" && (always || !unsteered) {
					c.Excluded(id)
					continue
				}
				c.Label("op:" + in[0].K)
				if a := sit["a"]; a != "" {
					c.Label("a:" + strings.Split(a, ",")[0])
				}
				if r := sit["rel"]; r != "" {
					c.Label("rel:" + r)
				}
				done = append(done, in...)
				if n := typesIn(w.Snap); n > maxTypes {
					maxTypes = n
				}
				if dev := runOps(c, w, in, st); dev != nil {
					return &vt.Failure{Dev: dev, Replay: Case{Kind: "kernel", FS: kind, Umask: umask, Ops: done}}
				}
			}
			if st.mutOK >= 1 && st.failNonENOENT >= 1 && maxTypes >= 2 {
				c.NonTrivial(opsKey(kind, umask, done))
				c.Sample("hist-"+kind, map[string]any{"fs": kind, "umask": umask, "ops": opStrings(done)})
			}
			return nil
		})
	}

	// 4. metamorphic: a non-clean spelling behaves exactly as its Clean() form
	for _, kind := range kinds {
		kind := kind
		cfg := cfgFor(kind)
		ucfg := cfg
		ucfg.NoTemp = true // random temp names cannot be paired between the twins
		c.Rapid("unclean-"+kind, c.Pick(300, 5000), func(t *rapid.T) *vt.Failure {
			return uncleanProp(c, t, kind, ucfg)
		})
	}
}

func opStrings(ops []fsx.Op) []string {
	var r []string
	for _, o := range ops {
		r = append(r, o.String())
	}
	return r
}

// one runs a start tree followed by one instance.
func one(c *vt.Ctx, kt *kernel.Thread, kind string, umask int, prefix []fsx.Op, in gen.Inst, label string) {
	w, err := world.New(kt, kind, umask)
	if err != nil {
		c.Inconclusive("world: " + err.Error())
		return
	}
	defer w.Close()
	for _, o := range prefix {
		if kind == "OrefaFS" && o.K == "Symlink" {
			return
		}
		_, ok, dev := w.Step("C01", o)
		if dev != nil || ok.Err != "ok" {
			// the start tree itself is not buildable identically: reported once as its own case
			if dev != nil {
				c.Report(dev, Case{Kind: "kernel", FS: kind, Umask: umask, Ops: prefix})
			}
			return
		}
	}
	sit := w.Situation("C01", in[0])
	if id := steered(c, sit); id != "" {
		// the exhaustive tier issues known situations too (it confirms them), but
		// counts them apart
		c.Label("exh-known-situation")
	}
	st := &caseStats{}
	all := append(append([]fsx.Op{}, prefix...), in...)
	dev := runOps(c, w, in, st)
	c.Label(label)
	if st.failNonENOENT > 0 || st.mutOK > 0 {
		c.NonTrivial(opsKey(kind, umask, all))
	}
	if dev != nil {
		c.Report(dev, Case{Kind: "kernel", FS: kind, Umask: umask, Ops: all})
	}
}

func replay(c *vt.Ctx, kt *kernel.Thread, cs Case) *vt.Deviation {
	switch cs.Kind {
	case "unclean":
		return uncleanReplay(c, cs)
	}
	w, err := world.New(kt, cs.FS, cs.Umask)
	if err != nil {
		c.Inconclusive("world: " + err.Error())
		return nil
	}
	defer w.Close()
	return runOps(c, w, cs.Ops, nil)
}

func hasSituation(m map[string]string) bool {
	for _, f := range []string{"op", "a", "b", "ab", "rel", "params", "hflags", "hkind"} {
		if _, ok := m[f]; ok {
			return true
		}
	}
	return false
}
