package c01

import (
	"fmt"
	"strings"

	"pgregory.net/rapid"

	"verif/harness/internal/fsx"
	"verif/harness/internal/gen"
	"verif/harness/internal/vt"
	"verif/harness/internal/world"
)

// spell returns a non-clean spelling of p selected by v (0 = unchanged).
func spell(p string, v int) string {
	if p == "" {
		return p
	}
	switch v {
	case 1: // doubled separators
		return strings.ReplaceAll(p, "/", "//")
	case 2: // /./ inserted
		if strings.HasPrefix(p, "/") {
			return "/." + p
		}
		return "./" + p
	case 3: // x/../ inserted before the last component
		i := strings.LastIndex(p, "/")
		return p[:i+1] + "zz/../" + p[i+1:]
	case 4: // trailing separator
		if p == "/" {
			return "//"
		}
		return p + "/"
	case 5: // trailing /.
		if p == "/" {
			return "/."
		}
		return p + "/."
	}
	return p
}

func respell(o fsx.Op, v1, v2 int) fsx.Op {
	if o.K == "RenameTemp" || o.K == "CreateTemp" || o.K == "MkdirTemp" {
		return o
	}
	if o.K == "Symlink" { // P is link text, not a path operand
		o.P2 = spell(o.P2, v2)
		return o
	}
	o.P = spell(o.P, v1)
	if o.K == "Rename" || o.K == "Link" {
		o.P2 = spell(o.P2, v2)
	}
	return o
}

type twin struct {
	a, b   *fsx.Runner
	av, bv fsx.FS
	roots  []string
}

func newTwin(kind string) *twin {
	v1, _ := world.NewVFS(kind)
	v2, _ := world.NewVFS(kind)
	_ = v1.Mkdir("/w", 0o755)
	_ = v2.Mkdir("/w", 0o755)
	_ = v1.Chdir("/")
	_ = v2.Chdir("/")
	roots := []string{"/"}
	if kind == "OrefaFS" {
		roots = []string{"/a", "/b", "/c", "/home", "/root", "/tmp", "/w"}
	}
	return &twin{a: fsx.NewRunner(v1), b: fsx.NewRunner(v2), av: v1, bv: v2, roots: roots}
}

// step runs the clean op on a and the respelled op on b.
func (tw *twin) step(kind string, o, o2 fsx.Op) *vt.Deviation {
	oa := tw.a.Do(o)
	ob := tw.b.Do(o2)
	mk := func(exp, obs, detail string) *vt.Deviation {
		d := vt.Dev("prop", "C01", "fs", kind, "op", o.K, "mode", "unclean", "expected", exp, "observed", obs)
		d.Detail = fmt.Sprintf("%s: %s gives %s but the non-clean spelling %s gives %s; %s", kind, o, oa, o2, ob, detail)
		return d
	}
	// names in FileInfo come from the spelling given; compare outcome kind and
	// the value except for the Name field of Stat/Lstat.
	va, vb := oa.Val, ob.Val
	if o.K == "Stat" || o.K == "Lstat" {
		va, vb = dropFirstField(va), dropFirstField(vb)
	}
	if o.K == "WalkDir" || o.K == "Glob" {
		// WalkDir and Glob report paths built from the spelling given
		va, vb = "", ""
	}
	if oa.Err != ob.Err {
		return mk(oa.Err, ob.Err, "outcome differs")
	}
	if va != vb {
		return mk("val", "val", "value differs")
	}
	sa := fsx.Snapshot(tw.av, fsx.SnapOpts{Roots: tw.roots})
	sb := fsx.Snapshot(tw.bv, fsx.SnapOpts{Roots: tw.roots})
	if p, f, l, r, same := fsx.Diff(sa, sb); !same {
		return mk("tree", "tree:"+f, fmt.Sprintf("trees differ at %s %s: clean %q, non-clean %q", p, f, l, r))
	}
	return nil
}

func dropFirstField(s string) string {
	i := strings.IndexByte(s, ' ')
	if i < 0 {
		return s
	}
	return s[i+1:]
}

func uncleanProp(c *vt.Ctx, t *rapid.T, kind string, cfg gen.Config) *vt.Failure {
	n := rapid.IntRange(1, 25).Draw(t, "n")
	tw := newTwin(kind)
	defer tw.a.CloseAll()
	defer tw.b.CloseAll()
	var clean, dirty []fsx.Op
	spelled := 0
	for i := 0; i < n; i++ {
		in := cfg.Draw(t)
		v1 := rapid.IntRange(0, 5).Draw(t, "spell1")
		v2 := rapid.IntRange(0, 5).Draw(t, "spell2")
		for _, o := range in {
			o2 := respell(o, v1, v2)
			if o2 != o {
				spelled++
				c.Label(fmt.Sprintf("spelling:%d", v1))
			}
			clean = append(clean, o)
			dirty = append(dirty, o2)
			c.Eval(1)
			if dev := tw.step(kind, o, o2); dev != nil {
				return &vt.Failure{Dev: dev, Replay: Case{Kind: "unclean", FS: kind, Ops: append(append([]fsx.Op{}, clean...), dirty...)}}
			}
		}
	}
	if spelled >= 2 {
		c.NonTrivial(opsKey("unclean-"+kind, 0, dirty))
		c.Sample("unclean-"+kind, map[string]any{"fs": kind, "mode": "non-clean spelling vs clean", "ops": opStrings(dirty)})
	}
	return nil
}

func uncleanReplay(c *vt.Ctx, cs Case) *vt.Deviation {
	n := len(cs.Ops) / 2
	tw := newTwin(cs.FS)
	defer tw.a.CloseAll()
	defer tw.b.CloseAll()
	for i := 0; i < n; i++ {
		if dev := tw.step(cs.FS, cs.Ops[i], cs.Ops[n+i]); dev != nil {
			return dev
		}
	}
	return nil
}
