// C14 - Glob, WalkDir and ReadDir enumerate exactly what exists.
package c14

import (
	"errors"
	"fmt"
	"io/fs"
	"sort"
	"strings"
	"testing"

	"github.com/avfs/avfs"
	"github.com/avfs/avfs/vfs/basepathfs"
	"github.com/avfs/avfs/vfs/failfs"
	"github.com/avfs/avfs/vfs/rofs"
	"pgregory.net/rapid"

	"verif/harness/internal/fsx"
	"verif/harness/internal/gen"
	"verif/harness/internal/kernel"
	"verif/harness/internal/vt"
	"verif/harness/internal/world"
)

// Case is a replayable C14 case.
type Case struct {
	FS    string   `json:"fs"` // MemFS | OrefaFS | RoFS(MemFS) | FailFS(MemFS) | BasePathFS(MemFS)
	Build []fsx.Op `json:"build"`
	Cwd   string   `json:"cwd,omitempty"`
	Ops   []fsx.Op `json:"ops"`
	As    string   `json:"as,omitempty"` // the queries are issued by this non-administrator (MemFS only)
}

var fsKinds = []string{"MemFS", "OrefaFS", "RoFS(MemFS)", "FailFS(MemFS)", "RoFS(OrefaFS)", "FailFS(OrefaFS)"}

func baseKind(k string) string {
	if strings.Contains(k, "OrefaFS") {
		return "OrefaFS"
	}
	return "MemFS"
}

func wrap(kind string, v avfs.VFS) fsx.FS {
	switch {
	case strings.HasPrefix(kind, "RoFS"):
		return rofs.New(v)
	case strings.HasPrefix(kind, "FailFS"):
		return failfs.New(v)
	case strings.HasPrefix(kind, "BasePathFS"):
		b, err := basepathfs.NewWithErr(v, "/")
		if err != nil {
			return v
		}
		return b
	}
	return v
}

// helpers checks Exists, DirExists, IsDir and IsEmpty against what Stat and
// ReadDir of the same path imply (no kernel needed).
func helpers(v avfs.VFS, p string) string {
	fi, serr := v.Stat(p)
	ex, exErr := avfs.Exists(v, p)
	wantEx := serr == nil
	if errors.Is(serr, fs.ErrNotExist) {
		if ex || exErr != nil {
			return fmt.Sprintf("Exists(%q) = %v, %v but Stat says it does not exist", p, ex, exErr)
		}
	} else if serr == nil && (!ex || exErr != nil) {
		return fmt.Sprintf("Exists(%q) = %v, %v but Stat succeeds", p, ex, exErr)
	}
	_ = wantEx
	de, deErr := avfs.DirExists(v, p)
	if want := serr == nil && fi.IsDir(); de != want || (serr == nil && deErr != nil) {
		return fmt.Sprintf("DirExists(%q) = %v, %v; Stat: %v", p, de, deErr, serr)
	}
	id, idErr := avfs.IsDir(v, p)
	if serr != nil {
		if idErr == nil {
			return fmt.Sprintf("IsDir(%q) = %v, nil but Stat fails with %v", p, id, serr)
		}
	} else if id != fi.IsDir() || idErr != nil {
		return fmt.Sprintf("IsDir(%q) = %v, %v; Stat says dir=%v", p, id, idErr, fi.IsDir())
	}
	ie, ieErr := avfs.IsEmpty(v, p)
	switch {
	case serr != nil:
		if ieErr == nil {
			return fmt.Sprintf("IsEmpty(%q) = %v, nil but Stat fails", p, ie)
		}
	case fi.IsDir():
		ents, rerr := v.ReadDir(p)
		if rerr == nil && (ieErr != nil || ie != (len(ents) == 0)) {
			return fmt.Sprintf("IsEmpty(%q) = %v, %v but ReadDir lists %d entries", p, ie, ieErr, len(ents))
		}
	default:
		if ieErr != nil || ie != (fi.Size() == 0) {
			return fmt.Sprintf("IsEmpty(%q) = %v, %v but the file has size %d", p, ie, ieErr, fi.Size())
		}
	}
	return ""
}

func runCase(c *vt.Ctx, kt *kernel.Thread, cs Case) *vt.Deviation {
	w, err := world.New(kt, baseKind(cs.FS), 0o022)
	if err != nil {
		c.Inconclusive("world: " + err.Error())
		return nil
	}
	defer w.Close()
	for _, o := range cs.Build {
		if baseKind(cs.FS) == "OrefaFS" && (o.K == "Symlink") {
			continue
		}
		if _, _, dev := w.Step("C14", o); dev != nil {
			// the tree must be the same on both sides: a deviation while building is C01's
			// business; this case is not judged
			c.Label("build-deviation(C01)")
			return nil
		}
	}
	var ids map[string]world.Ident
	if cs.As != "" {
		if ids, err = w.SetupUsers(); err != nil {
			c.Inconclusive("users: " + err.Error())
			return nil
		}
	}
	if cs.Cwd != "" {
		if _, _, dev := w.Step("C14", fsx.Op{K: "Chdir", P: cs.Cwd}); dev != nil {
			return nil
		}
	}
	// from here on the calls go through the wrapper
	w.E = fsx.NewRunner(wrap(cs.FS, w.V))
	w.E.NoOwner = w.NoOwner
	w.FastReads = true
	w.Kind = cs.FS
	for _, o := range cs.Ops {
		if baseKind(cs.FS) == "OrefaFS" && orefaRoot(o, w.Cwd) {
			c.Excluded("C01-orefafs-root")
			continue
		}
		c.Eval(1)
		if o.K == "Helpers" {
			if msg := helpers(w.V, o.P); msg != "" {
				d := vt.Dev("prop", "C14", "fs", cs.FS, "op", "Helpers", "expected", "consistent", "observed", "inconsistent")
				d.Detail = msg
				return d
			}
			continue
		}
		var ok fsx.Out
		var dev *vt.Deviation
		if cs.As != "" {
			_, ok, dev = w.StepAs("C14", o, ids[cs.As])
		} else {
			_, ok, dev = w.Step("C14", o)
		}
		if dev != nil {
			if cs.As != "" {
				dev.Fields["actor"] = "user"
			}
			if o.K == "Glob" {
				dev.Fields["pattern"] = patternClass(o.P)
			}
			if c.KnownFor(dev) != nil {
				// a read-only query: the trees are untouched, the remaining queries still run
				c.Report(dev, nil)
				continue
			}
			return dev
		}
		switch o.K {
		case "Glob":
			if ok.Val != "nil" && !strings.Contains(o.P, "*") == false {
				c.NonTrivial(vt.Hash64(fmt.Sprint(cs.Build), o.String()))
			}
		case "WalkDir":
			if o.Act != 0 && strings.Count(ok.Val, " ") >= o.At {
				c.NonTrivial(vt.Hash64(fmt.Sprint(cs.Build), o.String()))
			}
		}
	}
	return nil
}

func patternClass(p string) string {
	var cl []string
	if strings.ContainsAny(p, "[") {
		cl = append(cl, "class")
	}
	if strings.Contains(p, `\`) {
		cl = append(cl, "escape")
	}
	if !strings.HasPrefix(p, "/") {
		cl = append(cl, "rel")
	}
	if strings.Contains(p, "//") || strings.HasSuffix(p, "/") {
		cl = append(cl, "unclean")
	}
	if len(cl) == 0 {
		return "plain"
	}
	return strings.Join(cl, ",")
}

var patterns = []string{"*", "?", "a*", "*a", "[ab]", "[^a]", "[a-c]", "[c-a]", `\*`, `\a`, "[", "[]", "a[", "[a", "[]a]", "a", "b", "*/*", "*/a", "a/*", "?/?", "*/*/*", "[ab]/[ab]", "/*", "**", "*?", "[-]", "[a-]", "[^]", `[\]]`,
	// a closing bracket outside a class and an opening one inside a class are ordinary characters
	"a]*", "*]*", "[[]*", "*]d/*", "?]", "[[]b", "*[]]*", "c]d/[a-e]"}

// lexically clean dot patterns, only used bare (relative to the working directory)
var dotPatterns = []string{".", "..", "../*", "../a"}

func TestCheck(t *testing.T) {
	c := vt.New(t, "C14")
	defer c.Finish()
	kt, err := kernel.New("/dev/shm")
	if err != nil {
		c.Inconclusive("kernel oracle unavailable: " + err.Error())
		return
	}
	defer kt.Close()
	for _, f := range c.ReplayFiles() {
		var cs Case
		if err := vt.LoadReplay(f, &cs); err != nil {
			c.Inconclusive("replay " + f + ": " + err.Error())
			continue
		}
		if dev := runCase(c, kt, cs); dev != nil {
			if k := c.KnownFor(dev); k != nil {
				c.WitnessLive(k.ID)
			}
			c.Report(dev, cs)
		}
	}
	if c.Replay != "" {
		return
	}
	// bounded-exhaustive: every start tree x every pattern (absolute in /w, /w/a and relative from /w and /w/a) and every
	// (visit index, action) of WalkDir, ReadDir and the helpers on every path of the universe
	cfgm := gen.Config{Symlinks: true, Root: true, Base: "/w"}
	idx := 0
	for _, kind := range fsKinds {
		trees := cfgm.StartTrees()
		trees["brackets"] = []fsx.Op{{K: "WriteFile", P: "/w/a]", Data: "1", Perm: 0o644}, {K: "WriteFile", P: "/w/[b", Data: "2", Perm: 0o644}, {K: "Mkdir", P: "/w/c]d", Perm: 0o755},
			{K: "WriteFile", P: "/w/c]d/e", Data: "3", Perm: 0o644}, {K: "Mkdir", P: "/w/a", Perm: 0o755}, {K: "WriteFile", P: "/w/a/x]y", Data: "4", Perm: 0o644}, {K: "WriteFile", P: "/w/a/[", Data: "5", Perm: 0o644}}
		var treeNames []string
		for name := range trees {
			treeNames = append(treeNames, name)
		}
		sort.Strings(treeNames) // (a run is a function of the seed, not of map order)
		for _, name := range treeNames {
			build := trees[name]
			for _, cwd := range []string{"", "/w", "/w/a"} {
				idx++
				if idx%c.NShards != c.Shard {
					continue
				}
				cs := Case{FS: kind, Build: build, Cwd: cwd}
				for _, p := range patterns {
					cs.Ops = append(cs.Ops, fsx.Op{K: "Glob", P: p}, fsx.Op{K: "Glob", P: "/w/" + p}, fsx.Op{K: "Glob", P: "/w/a/" + p})
				}
				for _, p := range dotPatterns {
					cs.Ops = append(cs.Ops, fsx.Op{K: "Glob", P: p})
				}
				for _, root := range []string{"/w", "/w/a", "/w/b", ".", "a", "/w/missing", "/w/c"} {
					cs.Ops = append(cs.Ops, fsx.Op{K: "WalkDir", P: root})
					for act := 1; act <= 3; act++ {
						for at := 0; at < 8; at++ {
							cs.Ops = append(cs.Ops, fsx.Op{K: "WalkDir", P: root, Act: act, At: at})
						}
					}
				}
				for _, p := range append(cfgm.Paths(), cfgm.RelPaths()...) {
					cs.Ops = append(cs.Ops, fsx.Op{K: "ReadDir", P: p}, fsx.Op{K: "Helpers", P: p})
				}
				if dev := runCase(c, kt, cs); dev != nil {
					c.Report(dev, cs)
				}
				c.Sample(kind+name, map[string]any{"fs": kind, "tree": name, "cwd": cwd, "ops": len(cs.Ops)})
			}
		}
	}
	c.SetExhaustive(true)

	// directories a non-administrator cannot list or search: Glob skips them silently and keeps
	// what it found elsewhere, WalkDir reports them to the callback and goes on, ReadDir fails -
	// as the kernel makes package path/filepath and os do for a process with that uid
	{
		dirs := []string{"/w/t/a", "/w/t/c", "/w/t/e"}
		modes := []uint32{0o755, 0o700, 0o311, 0o000, 0o444, 0o711}
		upats := []string{"/w/t/*/x*", "/w/t/*", "/w/t/?/*", "/w/t/[ac]/x1", "/w/t/*/*", "/w/t/a/x1", "/w/t/c/*", "/w/t/*/s/*", "/w/t/e/s/y"}
		n := 0
		for _, ma := range modes {
			for _, mc := range modes {
				for _, me := range modes {
					n++
					if n%c.NShards != c.Shard || (!c.Thorough() && n%3 != 0) {
						continue
					}
					cs := Case{FS: "MemFS", As: "u1", Build: []fsx.Op{{K: "Mkdir", P: "/w/t", Perm: 0o755}}}
					for i, d := range dirs {
						cs.Build = append(cs.Build, fsx.Op{K: "Mkdir", P: d, Perm: 0o755}, fsx.Op{K: "WriteFile", P: d + fmt.Sprintf("/x%d", i+1), Data: "x", Perm: 0o644},
							fsx.Op{K: "Mkdir", P: d + "/s", Perm: 0o755}, fsx.Op{K: "WriteFile", P: d + "/s/y", Data: "y", Perm: 0o644})
					}
					for i, m := range []uint32{ma, mc, me} {
						cs.Build = append(cs.Build, fsx.Op{K: "Chmod", P: dirs[i], Perm: m})
					}
					for _, p := range upats {
						cs.Ops = append(cs.Ops, fsx.Op{K: "Glob", P: p})
					}
					for act := 0; act <= 3; act++ {
						for _, at := range []int{0, 1, 2, 4} {
							cs.Ops = append(cs.Ops, fsx.Op{K: "WalkDir", P: "/w/t", Act: act, At: at})
							if act == 0 {
								break
							}
						}
					}
					for _, d := range dirs {
						cs.Ops = append(cs.Ops, fsx.Op{K: "ReadDir", P: d}, fsx.Op{K: "ReadDir", P: d + "/s"}, fsx.Op{K: "WalkDir", P: d})
					}
					if dev := runCase(c, kt, cs); dev != nil {
						c.Report(dev, cs)
					}
					if ma != 0o755 || mc != 0o755 || me != 0o755 {
						c.NonTrivial(vt.Hash64("unreadable", fmt.Sprint(ma, mc, me)))
					}
					c.Label("unreadable-dir-case")
				}
			}
		}
		c.Sample("unreadable", map[string]any{"as": "u1 (not the owner)", "dirs": dirs, "modes": "each of 0755 0700 0311 0000 0444 0711", "patterns": upats})
	}

	// random trees and pattern grammar
	atoms := []string{"a", "b", "c", "*", "?", "[ab]", "[^a]", "[a-c]", `\*`, `\b`, "[", "]", "-", "^", "x"}
	for _, kind := range fsKinds {
		kind := kind
		cfg := gen.Config{Symlinks: baseKind(kind) == "MemFS", Root: false, Base: "/w", NoChown: true, Kinds: []string{"Mkdir", "MkdirAll", "WriteFile", "Symlink", "Link", "Remove", "Rename"}}
		c.Rapid("random-"+kind, c.Pick(300, 8000), func(t *rapid.T) *vt.Failure {
			cs := Case{FS: kind}
			for n := rapid.IntRange(1, 14).Draw(t, "build"); n > 0; n-- {
				cs.Build = append(cs.Build, cfg.Draw(t)...)
			}
			cs.Cwd = rapid.SampledFrom([]string{"", "/w", "/w/a"}).Draw(t, "cwd")
			for n := rapid.IntRange(1, 12).Draw(t, "queries"); n > 0; n-- {
				switch rapid.IntRange(0, 3).Draw(t, "what") {
				case 0:
					root := rapid.SampledFrom([]string{"/w", "/w/a", "/w/b", ".", "a", "b/a", "/w/c"}).Draw(t, "root")
					cs.Ops = append(cs.Ops, fsx.Op{K: "WalkDir", P: root, Act: rapid.IntRange(0, 3).Draw(t, "act"), At: rapid.IntRange(0, 10).Draw(t, "at")})
				case 1:
					p := rapid.SampledFrom(cfg.Paths()).Draw(t, "p")
					cs.Ops = append(cs.Ops, fsx.Op{K: "ReadDir", P: p}, fsx.Op{K: "Helpers", P: p})
				default:
					var sb strings.Builder
					if rapid.Bool().Draw(t, "abs") {
						sb.WriteString("/w/")
					}
					for k := rapid.IntRange(1, 3).Draw(t, "segments"); k > 0; k-- {
						for a := rapid.IntRange(1, 3).Draw(t, "atoms"); a > 0; a-- {
							sb.WriteString(rapid.SampledFrom(atoms).Draw(t, "atom"))
						}
						if k > 1 {
							sb.WriteString("/")
						}
					}
					cs.Ops = append(cs.Ops, fsx.Op{K: "Glob", P: sb.String()})
				}
			}
			for _, o := range cs.Ops {
				c.Label("op:" + o.K)
			}
			if dev := runCase(c, kt, cs); dev != nil {
				return &vt.Failure{Dev: dev, Replay: cs}
			}
			return nil
		})
	}
}

// orefaRoot: the OrefaFS root cannot be addressed by path (known finding
// C01-orefafs-root); queries that have to list or stat the root are not issued.
func orefaRoot(o fsx.Op, cwd string) bool {
	p := o.P
	if o.K == "Glob" {
		// the literal directory prefix of the pattern
		if i := strings.IndexAny(p, "*?[\\"); i >= 0 {
			p = p[:i]
			if j := strings.LastIndex(p, "/"); j >= 0 {
				p = p[:j+1]
			} else {
				p = ""
			}
		}
		if p == "" {
			p = "."
		}
	}
	if !strings.HasPrefix(p, "/") {
		p = cwd + "/" + p
	}
	return pathClean(p) == "/"
}

func pathClean(p string) string {
	var out []string
	for _, c := range strings.Split(p, "/") {
		switch c {
		case "", ".":
		case "..":
			if len(out) > 0 {
				out = out[:len(out)-1]
			}
		default:
			out = append(out, c)
		}
	}
	return "/" + strings.Join(out, "/")
}
