// C10 - BasePathFS confines all access to its base directory and acts as a chroot.
package c10

import (
	"fmt"
	"os"
	"path"
	"strings"
	"testing"

	"github.com/avfs/avfs"
	"github.com/avfs/avfs/vfs/basepathfs"
	"pgregory.net/rapid"

	"verif/harness/internal/fsx"
	"verif/harness/internal/gen"
	"verif/harness/internal/vt"
	"verif/harness/internal/world"
)

// Case is a replayable C10 case.
type Case struct {
	FS   string   `json:"fs"`
	Base string   `json:"base"` // base directory in the underlying file system
	Ops  []fsx.Op `json:"ops"`
}

type inst struct {
	kind, base string
	x          avfs.VFS // underlying file system holding sentinels outside base
	w          avfs.VFS // basepathfs.New(x, base)
	r          avfs.VFS // standalone reference whose root holds base's content
	rw, rr     *fsx.Runner
	outside    fsx.Snap
	skipSlot   map[int]bool
}

// sentinels outside the base directory: nothing may read, list or change them.
func sentinels(base string) []fsx.Op {
	return []fsx.Op{
		{K: "WriteFile", P: "/secret", Data: "LEAK:Zq7-secret", Perm: 0o644},
		{K: "MkdirAll", P: base + "2", Perm: 0o755}, // shares the name prefix of the base
		{K: "WriteFile", P: base + "2/x", Data: "LEAK:Zq7-sibling", Perm: 0o644},
		{K: "WriteFile", P: "/w/outside", Data: "LEAK:Zq7-outside", Perm: 0o644},
		{K: "Mkdir", P: "/a", Perm: 0o755}, {K: "WriteFile", P: "/a/b", Data: "LEAK:Zq7-root-a-b", Perm: 0o644},
	}
}

func newInst(kind, base string) (*inst, error) {
	x, _ := world.NewVFS(kind)
	r, _ := world.NewVFS(kind)
	for _, v := range []avfs.VFS{x, r} {
		_ = v.SetUMask(0o022)
		_ = v.Chdir("/")
	}
	rx := fsx.NewRunner(x)
	for _, o := range append([]fsx.Op{{K: "MkdirAll", P: "/w", Perm: 0o755}, {K: "MkdirAll", P: base, Perm: 0o755}}, sentinels(base)...) {
		if out := rx.Do(o); out.Err != "ok" {
			return nil, fmt.Errorf("setup %s: %s", o, out)
		}
	}
	// the system directories of the reference exist in the virtual root too
	for _, d := range []struct {
		p string
		m uint32
	}{{"/home", 0o700}, {"/root", 0o700}, {"/tmp", 0o777}, {"/w", 0o755}} {
		_ = x.Mkdir(base+d.p, 0o755)
		_ = x.Chmod(base+d.p, fsx.ModeFromBits(d.m))
	}
	_ = r.Mkdir("/w", 0o755)
	w, err := basepathfs.NewWithErr(x, base)
	if err != nil {
		return nil, err
	}
	// both start in their root directory
	_ = w.Chdir("/")
	_ = r.Chdir("/")
	in := &inst{kind: kind, base: base, x: x, w: w, r: r, rw: fsx.NewRunner(w), rr: fsx.NewRunner(r)}
	in.rw.NoOwner, in.rr.NoOwner = kind == "OrefaFS", kind == "OrefaFS"
	in.outside = in.snapOutside()
	return in, nil
}

func (in *inst) roots() []string {
	if in.kind == "OrefaFS" {
		return []string{"/a", "/b", "/c", "/home", "/root", "/tmp", "/w", "/secret"}
	}
	return []string{"/"}
}

// snapOutside: the underlying file system without the base subtree (full, with mtimes).
func (in *inst) snapOutside() fsx.Snap {
	s := fsx.Snapshot(in.x, fsx.SnapOpts{Roots: in.roots(), Full: true, NoOwner: in.kind == "OrefaFS"})
	var out fsx.Snap
	for _, r := range s {
		if r.Path == in.base || strings.HasPrefix(r.Path, in.base+"/") {
			continue
		}
		// the directories that contain the base change their mtime when an
		// entry of the base's own root... no: they only change if the base
		// directory itself is replaced; keep them
		out = append(out, r)
	}
	// identity classes are numbered by position: renumber within what is kept
	first := map[int]int{}
	for i := range out {
		if out[i].Type != "f" {
			continue
		}
		if j, ok := first[out[i].Ident]; ok {
			out[i].Ident = j
		} else {
			first[out[i].Ident] = i
			out[i].Ident = i
		}
	}
	return out
}

// snapInside: the base subtree of the underlying file system, expressed in virtual paths.
func (in *inst) snapInside() fsx.Snap {
	var roots []string
	if in.kind == "OrefaFS" {
		for _, r := range []string{"/a", "/b", "/c", "/home", "/root", "/tmp", "/w"} {
			roots = append(roots, in.base+r)
		}
	} else {
		roots = []string{in.base}
	}
	s := fsx.Snapshot(in.x, fsx.SnapOpts{Roots: roots, NoOwner: in.kind == "OrefaFS"})
	for i := range s {
		s[i].Path = strings.TrimPrefix(s[i].Path, in.base)
		if s[i].Path == "" {
			s[i].Path = "/"
		}
	}
	return s
}

func (in *inst) snapRef() fsx.Snap {
	roots := []string{"/"}
	if in.kind == "OrefaFS" {
		roots = []string{"/a", "/b", "/c", "/home", "/root", "/tmp", "/w"}
	}
	return fsx.Snapshot(in.r, fsx.SnapOpts{Roots: roots, NoOwner: in.kind == "OrefaFS"})
}

func pathClass(p string) string {
	var cl []string
	if strings.Contains(p, "..") {
		cl = append(cl, "dotdot")
	}
	if strings.Contains(p, "/B") {
		cl = append(cl, "base-text")
	}
	if !strings.HasPrefix(p, "/") {
		cl = append(cl, "rel")
	}
	if strings.Contains(p, "//") || strings.Contains(p, "/./") || strings.HasSuffix(p, "/") && p != "/" {
		cl = append(cl, "unclean")
	}
	if b := path.Base(p); p == "" || p == "/" || b == "." || b == ".." || strings.HasSuffix(p, "/.") || strings.HasSuffix(p, "/..") {
		cl = append(cl, "dotlast") // the last element is not a name
	}
	if len(cl) == 0 {
		return "plain"
	}
	return strings.Join(cl, ",")
}

// rootOperand: on OrefaFS the standalone reference cannot address its own root
// (known finding C01-orefafs-root), so calls whose operand resolves to the
// virtual root have no usable reference and are not issued.
func (in *inst) rootOperand(o fsx.Op) bool {
	if in.kind != "OrefaFS" {
		return false
	}
	cwd, _ := in.r.Getwd()
	isRoot := func(p string) bool {
		if strings.HasPrefix(p, "/") {
			return path.Clean(p) == "/"
		}
		return path.Join(cwd, p) == "/"
	}
	switch o.K {
	case "Getwd", "RenameTemp":
		return false
	case "Symlink":
		return isRoot(o.P2)
	case "Rename", "Link":
		return isRoot(o.P) || isRoot(o.P2)
	case "CreateTemp", "MkdirTemp":
		return o.P != "" && isRoot(o.P)
	}
	if strings.HasPrefix(o.K, "F") {
		return false
	}
	return isRoot(o.P)
}

func (in *inst) step(c *vt.Ctx, o fsx.Op) *vt.Deviation {
	if in.skipSlot == nil {
		in.skipSlot = map[int]bool{}
	}
	if strings.HasPrefix(o.K, "F") && in.skipSlot[o.H] {
		return nil // the call that should have filled this handle slot was not issued
	}
	if o.K == "Open" || o.K == "Create" || o.K == "CreateTemp" {
		in.skipSlot[o.H] = false
	}
	if in.rootOperand(o) {
		c.Excluded("C01-orefafs-root(reference)")
		if o.K == "Open" || o.K == "Create" || o.K == "CreateTemp" {
			in.skipSlot[o.H] = true
		}
		return nil
	}
	c.Eval(1)
	ow := in.rw.Do(o)
	or := in.rr.Do(o)
	mk := func(clause, detail string) *vt.Deviation {
		d := vt.Dev("prop", "C10", "fs", in.kind, "op", o.K, "clause", clause, "a", pathClass(o.P))
		if o.K == "Rename" || o.K == "Link" {
			d.Fields["b"] = pathClass(o.P2)
		}
		d.Detail = fmt.Sprintf("BasePathFS(%s,%s) %s -> %s, standalone %s: %s", in.kind, in.base, o, ow, or, detail)
		return d
	}
	if ow.Err == "PANIC" && ow.Val != "nil-handle" {
		return mk("panic", ow.Note)
	}
	// confinement: nothing outside the base may change
	after := in.snapOutside()
	if p, f, l, r, same := fsx.Diff(in.outside, after); !same {
		in.outside = after
		return mk("escape-write", fmt.Sprintf("outside the base directory %s changed (%s): %q -> %q", p, f, l, r))
	}
	// confinement of reads: no value may carry sentinel content
	// (the sentinel contents are strings no generated name, path or content can contain)
	for _, leak := range []string{"LEAK:Zq7-"} {
		if strings.Contains(ow.Val, leak) && !strings.Contains(or.Val, leak) {
			return mk("escape-read", "the call returned content of a file outside the base directory")
		}
	}
	// every path returned or embedded in an error is virtual
	for _, s := range []string{ow.Val, ow.EPath} {
		if s != "" && strings.Contains(s, in.base) && !strings.Contains(or.Val+or.EPath, in.base) {
			return mk("reveals-base", fmt.Sprintf("%q mentions the base directory", s))
		}
	}
	if ow.Err != or.Err {
		return mk("outcome", "outcome differs from the standalone file system")
	}
	if ow.Val != or.Val {
		return mk("value", "returned value differs from the standalone file system")
	}
	// temp names are random; MkdirAll reports the failing prefix as an absolute path of its own making
	if ow.EPath != or.EPath && o.K != "CreateTemp" && o.K != "MkdirTemp" && o.K != "MkdirAll" {
		return mk("error-path", fmt.Sprintf("error path fields %q, standalone %q", ow.EPath, or.EPath))
	}
	if p, f, l, r, same := fsx.Diff(in.snapInside(), in.snapRef()); !same {
		return mk("effect", fmt.Sprintf("trees differ at %s (%s): below the base %q, standalone %q", p, f, l, r))
	}
	return nil
}

// parity: path helpers and accessors of the wrapper answer as the standalone file system does
// (Abs in particular is a path the wrapper returns: virtual).
func (in *inst) parity() *vt.Deviation {
	if diff := fsx.LexicalParity(in.w, in.r, parityStrs); diff != "" {
		d := vt.Dev("prop", "C10", "fs", in.kind, "op", "helpers", "clause", "value")
		d.Detail = fmt.Sprintf("BasePathFS(%s,%s) %s", in.kind, in.base, diff)
		return d
	}
	return nil
}

var parityStrs = []string{"", ".", "..", "a", "/w/a", "../x", "/", "a/b/../c", "[a", "*", "/w//a/", "w"}

func (in *inst) close() {
	in.rw.CloseAll()
	in.rr.CloseAll()
}

func run(c *vt.Ctx, cs Case) *vt.Deviation {
	in, err := newInst(cs.FS, cs.Base)
	if err != nil {
		c.Inconclusive("instance: " + err.Error())
		return nil
	}
	defer in.close()
	for _, o := range cs.Ops {
		if dev := in.step(c, o); dev != nil {
			return dev
		}
	}
	return nil
}

// hostile path spellings: '..' climbing, the base's own text, relative, unclean
func hostile(base string) []string {
	return []string{"/..", "/../secret", "/../..", "../secret", "../../secret", "..", "../..", "/w/../../secret", "/a/../../w/outside", base, base + "/w", base + "2/x",
		"/../" + strings.TrimPrefix(base, "/") + "2/x", "a/../../../secret", "/w//a", "/w/./a", "/w/a/", "./a", "/", ".", "/w/a/..", "w", "w/a", "/w/outside", "/secret"}
}

func drawOp(t *rapid.T, cfg gen.Config, base string) gen.Inst {
	in := cfg.Draw(t)
	o := &in[0]
	if rapid.IntRange(0, 2).Draw(t, "hostile") == 0 {
		h := hostile(base)
		if o.K != "Symlink" && o.K != "RenameTemp" {
			o.P = rapid.SampledFrom(h).Draw(t, "hp")
			for i := 1; i < len(in); i++ {
				if in[i].K == "Mtime" {
					in[i].P = o.P
				}
			}
		}
		if (o.K == "Rename" || o.K == "Link") && rapid.Bool().Draw(t, "hostile2") {
			o.P2 = rapid.SampledFrom(h).Draw(t, "hp2")
		}
	}
	return in
}

func TestCheck(t *testing.T) {
	c := vt.New(t, "C10")
	defer c.Finish()
	for _, f := range c.ReplayFiles() {
		var cs Case
		if err := vt.LoadReplay(f, &cs); err != nil {
			c.Inconclusive("replay " + f + ": " + err.Error())
			continue
		}
		if dev := run(c, cs); dev != nil {
			if k := c.KnownFor(dev); k != nil {
				c.WitnessLive(k.ID)
			}
			c.Report(dev, cs)
		}
	}
	if c.Replay != "" {
		return
	}
	bases := []string{"/B", "/w/B"}
	for _, kind := range []string{"MemFS", "OrefaFS"} {
		kind := kind
		cfg := gen.Config{Symlinks: false, Root: kind == "MemFS", Base: "/w", NoTemp: true, Kinds: kindsFor()} // temp names are random on both sides
		// bounded-exhaustive: every call on every hostile path, after a small prefix and a Chdir
		prefix := []fsx.Op{{K: "Mkdir", P: "/w/a", Perm: 0o755}, {K: "WriteFile", P: "/w/a/b", Data: "AB", Perm: 0o644}, {K: "Mkdir", P: "/a", Perm: 0o755}}
		idx := 0
		for _, base := range bases {
			for _, cd := range []string{"", "/w", "/w/a"} {
				for _, hp := range hostile(base) {
					for _, k := range []string{"Stat", "Lstat", "ReadDir", "ReadFile", "Mkdir", "MkdirAll", "Remove", "RemoveAll", "WriteFile", "Create", "Chdir", "Chmod", "Truncate", "Glob", "WalkDir", "Open"} {
						for _, hp2 := range append([]string{""}, hostile(base)[:6]...) {
							if hp2 != "" && k != "Stat" {
								continue
							}
							idx++
							if idx%c.NShards != c.Shard {
								continue
							}
							ops := append([]fsx.Op{}, prefix...)
							if cd != "" {
								ops = append(ops, fsx.Op{K: "Chdir", P: cd})
							}
							o := fsx.Op{K: k, P: hp, Perm: 0o755, Data: "d", Flag: os.O_RDONLY}
							if hp2 != "" {
								o = fsx.Op{K: "Rename", P: hp, P2: hp2}
							}
							ops = append(ops, o, fsx.Op{K: "Getwd"})
							cs := Case{FS: kind, Base: base, Ops: ops}
							if dev := run(c, cs); dev != nil {
								c.Report(dev, cs)
							}
							c.NonTrivial(vt.Hash64(kind, base, cd, o.String()))
						}
					}
				}
			}
		}
		c.Rapid("hist-"+kind, c.Pick(5000, 80000), func(t *rapid.T) *vt.Failure {
			base := rapid.SampledFrom(bases).Draw(t, "base")
			cs := Case{FS: kind, Base: base}
			in, err := newInst(kind, base)
			if err != nil {
				c.Inconclusive("instance: " + err.Error())
				return nil
			}
			defer in.close()
			nt := false
			held := map[int]bool{}
			for n := rapid.IntRange(1, 30).Draw(t, "n"); n > 0; n-- {
				ops := []fsx.Op(nil)
				switch rapid.IntRange(0, 5).Draw(t, "what") {
				case 0: // open a handle through a (possibly hostile) spelling and keep it
					h := rapid.IntRange(1, 2).Draw(t, "h")
					ps := append(hostile(base), cfg.Paths()...)
					ops = []fsx.Op{{K: "Open", P: rapid.SampledFrom(ps).Draw(t, "op"), Flag: rapid.SampledFrom([]int{os.O_RDONLY, os.O_RDWR, os.O_RDWR | os.O_CREATE, os.O_WRONLY | os.O_APPEND}).Draw(t, "fl"), Perm: 0o644, H: h},
						{K: "FName", H: h}, {K: "FStat", H: h}}
					held[h] = true
				case 1: // a call on a kept handle: names and error paths of handles are virtual too
					h := rapid.IntRange(1, 2).Draw(t, "h")
					if !held[h] {
						continue
					}
					k := rapid.SampledFrom([]string{"FName", "FStat", "FChdir", "FRead", "FReadDir", "FReaddirnames", "FWrite", "FWriteString", "FWriteAt", "FReadAt", "FSeek", "FTruncate", "FChmod", "FChown", "FSync", "FClose"}).Draw(t, "hk")
					o := fsx.Op{K: k, H: h, N: rapid.SampledFrom([]int{0, 2, 64}).Draw(t, "n"), Data: "h", Off: rapid.SampledFrom([]int64{-1, 0, 3}).Draw(t, "off"),
						Size: rapid.SampledFrom([]int64{-1, 0, 5}).Draw(t, "size"), Perm: 0o600, Uid: -1, Gid: -1, Whence: rapid.SampledFrom([]int{0, 2, 7}).Draw(t, "wh")}
					ops = []fsx.Op{o}
					if k == "FChdir" {
						ops = append(ops, fsx.Op{K: "Getwd"}, fsx.Op{K: "Abs", P: "x"})
					}
					if k == "FReadDir" || k == "FReaddirnames" {
						ops[0].N = rapid.SampledFrom([]int{-1, 0, 2}).Draw(t, "dn")
					}
					if k == "FClose" {
						held[h] = false
					}
				default:
					ops = drawOp(t, cfg, base)
				}
				for _, o := range ops {
					cs.Ops = append(cs.Ops, o)
					c.Label("path:" + pathClass(o.P))
					dev := in.step(c, o)
					if dev != nil {
						return &vt.Failure{Dev: dev, Replay: cs}
					}
					if pc := pathClass(o.P); pc != "plain" && pc != "unclean" {
						nt = true
					}
				}
			}
			if dev := in.parity(); dev != nil {
				return &vt.Failure{Dev: dev, Replay: cs}
			}
			if nt {
				parts := []string{kind, base}
				for _, o := range cs.Ops {
					parts = append(parts, o.String())
				}
				c.NonTrivial(vt.Hash64(parts...))
				c.Sample("hist-"+kind, map[string]any{"fs": kind, "base": base, "ops": len(cs.Ops), "last": cs.Ops[len(cs.Ops)-1].String()})
			}
			return nil
		})
	}
	c.SetExhaustive(true)
}

func kindsFor() []string {
	var ks []string
	for _, k := range gen.AllKinds {
		if k == "Symlink" || k == "Readlink" || k == "EvalSymlinks" {
			continue // BasePathFS does not advertise symbolic links
		}
		ks = append(ks, k)
	}
	// Abs: a returned path is in the wrapper's own name space
	return append(ks, "Glob", "Abs")
}
