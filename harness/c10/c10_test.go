// C10 - BasePathFS confines all access to its base directory and acts as a chroot.
package c10

import (
	"fmt"
	"os"
	"path"
	"strings"
	"testing"

	"github.com/avfs/avfs"
	"github.com/avfs/avfs/idm/memidm"
	"github.com/avfs/avfs/vfs/basepathfs"
	"github.com/avfs/avfs/vfs/memfs"
	"github.com/avfs/avfs/vfs/orefafs"
	"pgregory.net/rapid"

	"verif/harness/internal/fsx"
	"verif/harness/internal/gen"
	"verif/harness/internal/vt"
	"verif/harness/internal/world"
)

// Case is a replayable C10 case.
type Case struct {
	FS   string   `json:"fs"`
	Base string   `json:"base"` // base directory in the underlying file system
	Spell int     `json:"spell,omitempty"` // how the base directory is spelt for NewWithErr: 0 clean, 1 trailing separator, 2 "/.", 3 "<base>2/../<name>"
	Ops  []fsx.Op `json:"ops"`
}

type inst struct {
	kind, base string
	x          avfs.VFS // underlying file system holding sentinels outside base
	w          avfs.VFS // basepathfs.New(x, base)
	r          avfs.VFS // standalone reference whose root holds base's content
	rw, rr     *fsx.Runner
	outside    fsx.Snap
	skipSlot   map[int]bool
	orefa      bool   // the underlying file system is an OrefaFS
	win        bool   // both file systems emulate Windows: the ops keep /-paths and are rewritten on the way in
	baseText   string // the base directory as the underlying file system spells it
	confOnly   bool   // a call named a volume the base does not have: from here on only confinement is asserted
	mentioned  bool   // a call passed the base directory's own text as a (virtual) path
}

// conv spells a /-path for the file systems of this instance.
func (in *inst) conv(p string) string { return fsx.Retarget(fsx.Op{P: p}, in.win).P }

func (in *inst) view(v avfs.VFS) fsx.FS {
	if in.win {
		return fsx.WinView{VFS: v}
	}
	return v
}

func newTyped(kind string, win bool) avfs.VFS {
	if !win {
		v, _ := world.NewVFS(kind)
		return v
	}
	if kind == "OrefaFS" {
		return orefafs.NewWithOptions(&orefafs.Options{OSType: avfs.OsWindows})
	}
	return memfs.NewWithOptions(&memfs.Options{OSType: avfs.OsWindows, Idm: memidm.NewWithOptions(&memidm.Options{OSType: avfs.OsWindows})})
}

// foreignVolume: a Windows path that names a volume other than C: (another drive, a UNC share, a
// device path). The wrapper maps every volume into the base directory while a standalone file system
// has no such volume: there is no reference answer, confinement is what remains to be asserted.
func foreignVolume(p string) bool {
	if strings.HasPrefix(p, `\\`) || strings.HasPrefix(p, `\??\`) {
		return true
	}
	return len(p) >= 2 && p[1] == ':' && p[0] != 'C' && p[0] != 'c'
}

// sentinels outside the base directory: nothing may read, list or change them.
func sentinels(base string) []fsx.Op {
	return []fsx.Op{
		{K: "WriteFile", P: "/secret", Data: "LEAK:Zq7-secret", Perm: 0o644},
		{K: "MkdirAll", P: base + "2", Perm: 0o755}, // shares the name prefix of the base
		{K: "WriteFile", P: base + "2/x", Data: "LEAK:Zq7-sibling", Perm: 0o644},
		{K: "WriteFile", P: "/w/outside", Data: "LEAK:Zq7-outside", Perm: 0o644},
		{K: "Mkdir", P: "/a", Perm: 0o755}, {K: "WriteFile", P: "/a/b", Data: "LEAK:Zq7-root-a-b", Perm: 0o644},
	}
}

// spellBase: the base directory as a caller may write it - clean, with a trailing separator,
// with a final "." or by way of its sibling and "..". All name the same directory; the wrapper
// must behave the same whichever is given.
func spellBase(text string, spell int, win bool) string {
	sep := "/"
	if win {
		sep = `\`
	}
	switch spell {
	case 1:
		return text + sep
	case 2:
		return text + sep + "."
	case 3:
		i := strings.LastIndex(text, sep)
		return text + "2" + sep + ".." + sep + text[i+1:]
	}
	return text
}

func newInst(kind, base string, spell int) (*inst, error) {
	win := strings.HasSuffix(kind, "-win")
	bk := strings.TrimSuffix(kind, "-win")
	in := &inst{kind: kind, base: base, orefa: bk == "OrefaFS", win: win}
	in.baseText = in.conv(base)
	x, r := newTyped(bk, win), newTyped(bk, win)
	for _, v := range []avfs.VFS{x, r} {
		_ = v.SetUMask(0o022)
		_ = v.Chdir(in.conv("/"))
	}
	rx := fsx.NewRunner(x)
	for _, o := range append([]fsx.Op{{K: "MkdirAll", P: "/w", Perm: 0o755}, {K: "MkdirAll", P: base, Perm: 0o755}}, sentinels(base)...) {
		if out := rx.Do(fsx.Retarget(o, win)); out.Err != "ok" {
			return nil, fmt.Errorf("setup %s: %s", o, out)
		}
	}
	// the system directories of the reference exist in the virtual root too
	_ = r.Mkdir(in.conv("/w"), 0o755)
	in.x, in.r = x, r
	if win {
		// (whatever directories a Windows-typed file system starts with)
		for _, rec := range in.snapRef() {
			if rec.Type == "d" && rec.Path != "/" {
				_ = x.MkdirAll(in.conv(base+rec.Path), 0o755)
				_ = x.Chmod(in.conv(base+rec.Path), fsx.ModeFromBits(rec.Perm))
			}
		}
	} else {
		for _, d := range []struct {
			p string
			m uint32
		}{{"/home", 0o700}, {"/root", 0o700}, {"/tmp", 0o777}, {"/w", 0o755}} {
			_ = x.Mkdir(base+d.p, 0o755)
			_ = x.Chmod(base+d.p, fsx.ModeFromBits(d.m))
		}
	}
	if win {
		// the base directory carries the permission bits of the reference's root
		if fi, err := r.Stat(in.conv("/")); err == nil {
			_ = x.Chmod(in.baseText, fi.Mode().Perm())
		}
	}
	w, err := basepathfs.NewWithErr(x, spellBase(in.baseText, spell, win))
	if err != nil {
		return nil, err
	}
	// both start in their root directory
	_ = w.Chdir(in.conv("/"))
	_ = r.Chdir(in.conv("/"))
	in.w, in.rw, in.rr = w, fsx.NewRunner(w), fsx.NewRunner(r)
	in.rw.NoOwner, in.rr.NoOwner = in.orefa, in.orefa
	in.outside = in.snapOutside()
	return in, nil
}

func (in *inst) roots() []string {
	if in.orefa {
		return []string{"/a", "/b", "/c", "/home", "/root", "/tmp", "/w", "/secret", "/B2", "/Bsrv", "/Bx", "/Users", "/Windows"}
	}
	return []string{"/"}
}

// snapOutside: the underlying file system without the base subtree (full, with mtimes).
func (in *inst) snapOutside() fsx.Snap {
	s := fsx.Snapshot(in.view(in.x), fsx.SnapOpts{Roots: in.roots(), Full: true, NoOwner: in.orefa})
	var out fsx.Snap
	for _, r := range s {
		if r.Path == in.base || strings.HasPrefix(r.Path, in.base+"/") {
			continue
		}
		// the directories that contain the base change their mtime when an
		// entry of the base's own root... no: they only change if the base
		// directory itself is replaced; keep them
		out = append(out, r)
	}
	// identity classes are numbered by position: renumber within what is kept
	first := map[int]int{}
	for i := range out {
		if out[i].Type != "f" {
			continue
		}
		if j, ok := first[out[i].Ident]; ok {
			out[i].Ident = j
		} else {
			first[out[i].Ident] = i
			out[i].Ident = i
		}
	}
	return out
}

// snapInside: the base subtree of the underlying file system, expressed in virtual paths.
func (in *inst) snapInside() fsx.Snap {
	var roots []string
	if in.orefa {
		for _, r := range []string{"/a", "/b", "/c", "/home", "/root", "/tmp", "/w", "/Users", "/Windows"} {
			roots = append(roots, in.base+r)
		}
	} else {
		roots = []string{in.base}
	}
	s := fsx.Snapshot(in.view(in.x), fsx.SnapOpts{Roots: roots, NoOwner: in.orefa})
	for i := range s {
		s[i].Path = strings.TrimPrefix(s[i].Path, in.base)
		if s[i].Path == "" {
			s[i].Path = "/"
		}
	}
	return s
}

func (in *inst) snapRef() fsx.Snap {
	roots := []string{"/"}
	if in.orefa {
		roots = []string{"/a", "/b", "/c", "/home", "/root", "/tmp", "/w", "/Users", "/Windows"}
	}
	return fsx.Snapshot(in.view(in.r), fsx.SnapOpts{Roots: roots, NoOwner: in.orefa})
}

func pathClass(p string) string {
	var cl []string
	if strings.Contains(p, "..") {
		cl = append(cl, "dotdot")
	}
	if strings.Contains(p, "/B") {
		cl = append(cl, "base-text")
	}
	if !strings.HasPrefix(p, "/") {
		cl = append(cl, "rel")
	}
	if strings.Contains(p, "//") || strings.Contains(p, "/./") || strings.HasSuffix(p, "/") && p != "/" {
		cl = append(cl, "unclean")
	}
	if b := path.Base(p); p == "" || p == "/" || b == "." || b == ".." || strings.HasSuffix(p, "/.") || strings.HasSuffix(p, "/..") {
		cl = append(cl, "dotlast") // the last element is not a name
	}
	if len(cl) == 0 {
		return "plain"
	}
	return strings.Join(cl, ",")
}

// rootOperand: on OrefaFS the standalone reference cannot address its own root
// (known finding C01-orefafs-root), so calls whose operand resolves to the
// virtual root have no usable reference and are not issued.
func (in *inst) rootOperand(o fsx.Op) bool {
	if !in.orefa {
		return false
	}
	cwd, _ := in.r.Getwd()
	if in.win {
		cwd = strings.ReplaceAll(strings.TrimPrefix(cwd, "C:"), `\`, "/")
	}
	isRoot := func(p string) bool {
		if strings.HasPrefix(p, "/") {
			return path.Clean(p) == "/"
		}
		return path.Join(cwd, p) == "/"
	}
	switch o.K {
	case "Getwd", "RenameTemp":
		return false
	case "Symlink":
		return isRoot(o.P2)
	case "Rename", "Link":
		return isRoot(o.P) || isRoot(o.P2)
	case "CreateTemp", "MkdirTemp":
		return o.P != "" && isRoot(o.P)
	}
	if strings.HasPrefix(o.K, "F") {
		return false
	}
	return isRoot(o.P)
}

func (in *inst) step(c *vt.Ctx, o fsx.Op) *vt.Deviation {
	if in.skipSlot == nil {
		in.skipSlot = map[int]bool{}
	}
	if strings.HasPrefix(o.K, "F") && in.skipSlot[o.H] {
		return nil // the call that should have filled this handle slot was not issued
	}
	if o.K == "SubProbe" {
		// a view obtained from the wrapper is confined like the wrapper: whatever spelling names its
		// directory, it shows what the standalone file system's view of that directory shows
		if in.win || in.confOnly {
			return nil
		}
		c.Eval(1)
		sw, ew := in.w.Sub(o.P)
		sr, er := in.r.Sub(o.P)
		d := vt.Dev("prop", "C10", "fs", in.kind, "op", "Sub", "clause", "outcome", "a", pathClass(o.P))
		if (ew == nil) != (er == nil) {
			d.Detail = fmt.Sprintf("BasePathFS(%s,%s) Sub(%q) -> %v, standalone %v", in.kind, in.base, o.P, ew, er)
			return d
		}
		if ew != nil {
			return nil
		}
		a, b := fsx.Snapshot(sw, fsx.SnapOpts{Roots: []string{"/"}, NoOwner: in.orefa}), fsx.Snapshot(sr, fsx.SnapOpts{Roots: []string{"/"}, NoOwner: in.orefa})
		for _, rec := range a {
			if strings.Contains(rec.Content, "LEAK:Zq7-") {
				d.Fields["clause"] = "escape-read"
				d.Detail = fmt.Sprintf("BasePathFS(%s,%s) Sub(%q): the view shows %s, a file outside the base directory", in.kind, in.base, o.P, rec.Path)
				return d
			}
		}
		if p, f, l, r, same := fsx.Diff(a, b); !same {
			d.Fields["clause"] = "value"
			d.Detail = fmt.Sprintf("BasePathFS(%s,%s) Sub(%q): the view differs from the standalone file system's at %s (%s): %q vs %q", in.kind, in.base, o.P, p, f, l, r)
			return d
		}
		return nil
	}
	if o.K == "BaseChdir" {
		// the owner of the underlying file system moves ITS working directory to a place outside the
		// base directory: the wrapper is documented to be in its root then (so is the reference)
		if err := in.r.Chdir(in.conv("/")); err != nil {
			c.Excluded("C01-orefafs-root(reference)") // the OrefaFS reference cannot go back to its root
			return nil
		}
		c.Eval(1)
		_ = in.x.Chdir(in.conv(o.P))
		return nil
	}
	if o.K == "Open" || o.K == "Create" || o.K == "CreateTemp" {
		in.skipSlot[o.H] = false
	}
	if in.rootOperand(o) {
		c.Excluded("C01-orefafs-root(reference)")
		if o.K == "Open" || o.K == "Create" || o.K == "CreateTemp" {
			in.skipSlot[o.H] = true
		}
		return nil
	}
	c.Eval(1)
	orig := o
	o = fsx.Retarget(o, in.win)
	if in.win && (foreignVolume(o.P) || foreignVolume(o.P2)) {
		in.confOnly = true
	}
	if strings.Contains(o.P+o.P2, path.Base(in.base)) { // (the universe of names is lower case)
		in.mentioned = true
	}
	ow := in.rw.Do(o)
	var or fsx.Out
	if !in.confOnly {
		or = in.rr.Do(o)
	}
	mk := func(clause, detail string) *vt.Deviation {
		d := vt.Dev("prop", "C10", "fs", in.kind, "op", o.K, "clause", clause, "a", pathClass(orig.P))
		if o.K == "Rename" || o.K == "Link" {
			d.Fields["b"] = pathClass(orig.P2)
		}
		d.Detail = fmt.Sprintf("BasePathFS(%s,%s) %s -> %s, standalone %s: %s", in.kind, in.base, o, ow, or, detail)
		return d
	}
	if ow.Err == "PANIC" && ow.Val != "nil-handle" {
		return mk("panic", ow.Note)
	}
	// confinement: nothing outside the base may change
	after := in.snapOutside()
	if p, f, l, r, same := fsx.Diff(in.outside, after); !same {
		in.outside = after
		return mk("escape-write", fmt.Sprintf("outside the base directory %s changed (%s): %q -> %q", p, f, l, r))
	}
	// confinement of reads: no value may carry sentinel content
	// (the sentinel contents are strings no generated name, path or content can contain)
	for _, leak := range []string{"LEAK:Zq7-"} {
		if strings.Contains(ow.Val, leak) && !strings.Contains(or.Val, leak) {
			return mk("escape-read", "the call returned content of a file outside the base directory")
		}
	}
	// every path returned or embedded in an error is virtual
	for _, s := range []string{ow.Val, ow.EPath} {
		if s != "" && strings.Contains(s, in.baseText) && !strings.Contains(or.Val+or.EPath, in.baseText) && !(in.confOnly && in.mentioned) {
			return mk("reveals-base", fmt.Sprintf("%q mentions the base directory", s))
		}
	}
	if in.confOnly {
		return nil
	}
	if ow.Err != or.Err {
		return mk("outcome", "outcome differs from the standalone file system")
	}
	if ow.Val != or.Val {
		return mk("value", "returned value differs from the standalone file system")
	}
	// temp names are random; MkdirAll reports the failing prefix as an absolute path of its own making
	if ow.EPath != or.EPath && o.K != "CreateTemp" && o.K != "MkdirTemp" && o.K != "MkdirAll" {
		return mk("error-path", fmt.Sprintf("error path fields %q, standalone %q", ow.EPath, or.EPath))
	}
	if p, f, l, r, same := fsx.Diff(in.snapInside(), in.snapRef()); !same {
		return mk("effect", fmt.Sprintf("trees differ at %s (%s): below the base %q, standalone %q", p, f, l, r))
	}
	return nil
}

// parity: path helpers and accessors of the wrapper answer as the standalone file system does
// (Abs in particular is a path the wrapper returns: virtual).
func (in *inst) parity() *vt.Deviation {
	if in.confOnly {
		return nil // the reference was left behind
	}
	if diff := fsx.LexicalParity(in.w, in.r, parityStrs); diff != "" {
		d := vt.Dev("prop", "C10", "fs", in.kind, "op", "helpers", "clause", "value")
		d.Detail = fmt.Sprintf("BasePathFS(%s,%s) %s", in.kind, in.base, diff)
		return d
	}
	return nil
}

var parityStrs = []string{"", ".", "..", "a", "/w/a", "../x", "/", "a/b/../c", "[a", "*", "/w//a/", "w"}

func (in *inst) close() {
	in.rw.CloseAll()
	in.rr.CloseAll()
}

func run(c *vt.Ctx, cs Case) *vt.Deviation {
	in, err := newInst(cs.FS, cs.Base, cs.Spell)
	if err != nil {
		c.Inconclusive("instance: " + err.Error())
		return nil
	}
	defer in.close()
	for _, o := range cs.Ops {
		if dev := in.step(c, o); dev != nil {
			return dev
		}
	}
	return nil
}

// hostile path spellings: '..' climbing, the base's own text, relative, unclean
func hostile(base string) []string {
	return []string{"/..", "/../secret", "/../..", "../secret", "../../secret", "..", "../..", "/w/../../secret", "/a/../../w/outside", base, base + "/w", base + "2/x",
		"/../" + strings.TrimPrefix(base, "/") + "2/x", "a/../../../secret", "/w//a", "/w/./a", "/w/a/", "./a", "/", ".", "/w/a/..", "w", "w/a", "/w/outside", "/secret"}
}

// foreign: Windows spellings that name another volume (as written before the rewrite to backslashes):
// UNC shares - one whose text continues the base directory's own name -, another drive, device paths
func foreign(base string) []string {
	return []string{"//2/x", "//srv/pub/d", "//srv/pub", "//srv/pub/../../secret", "D:/x", "D:/", "D:", "D:../secret", "//?/C:/secret", "//./C:/secret", "//?/C:" + base + "2/x", "//x/y/z"}
}

func drawOp(t *rapid.T, cfg gen.Config, base string, win bool) gen.Inst {
	in := cfg.Draw(t)
	o := &in[0]
	if win && rapid.IntRange(0, 14).Draw(t, "foreign") == 0 && o.K != "Symlink" && o.K != "RenameTemp" {
		o.P = rapid.SampledFrom(foreign(base)).Draw(t, "fp")
		return in
	}
	if rapid.IntRange(0, 2).Draw(t, "hostile") == 0 {
		h := hostile(base)
		if o.K != "Symlink" && o.K != "RenameTemp" {
			o.P = rapid.SampledFrom(h).Draw(t, "hp")
			for i := 1; i < len(in); i++ {
				if in[i].K == "Mtime" {
					in[i].P = o.P
				}
			}
		}
		if (o.K == "Rename" || o.K == "Link") && rapid.Bool().Draw(t, "hostile2") {
			o.P2 = rapid.SampledFrom(h).Draw(t, "hp2")
		}
	}
	return in
}

func TestCheck(t *testing.T) {
	c := vt.New(t, "C10")
	defer c.Finish()
	for _, f := range c.ReplayFiles() {
		var cs Case
		if err := vt.LoadReplay(f, &cs); err != nil {
			c.Inconclusive("replay " + f + ": " + err.Error())
			continue
		}
		if dev := run(c, cs); dev != nil {
			if k := c.KnownFor(dev); k != nil {
				c.WitnessLive(k.ID)
			}
			c.Report(dev, cs)
		}
	}
	if c.Replay != "" {
		return
	}
	bases := []string{"/B", "/w/B"}
	for _, kind := range []string{"MemFS", "OrefaFS", "MemFS-win", "OrefaFS-win"} {
		kind := kind
		win := strings.HasSuffix(kind, "-win")
		cfg := gen.Config{Symlinks: false, Root: strings.HasPrefix(kind, "MemFS"), Base: "/w", NoTemp: true, NoTmp: win, Kinds: kindsFor()} // temp names are random on both sides
		// bounded-exhaustive: every call on every hostile path, after a small prefix and a Chdir
		prefix := []fsx.Op{{K: "Mkdir", P: "/w/a", Perm: 0o755}, {K: "WriteFile", P: "/w/a/b", Data: "AB", Perm: 0o644}, {K: "Mkdir", P: "/a", Perm: 0o755}}
		idx := 0
		for _, base := range bases {
			for _, cd := range []string{"", "/w", "/w/a"} {
				hps := hostile(base)
				if win {
					hps = append(hps, foreign(base)...)
				}
				for _, hp := range hps {
					for _, k := range []string{"Stat", "Lstat", "ReadDir", "ReadFile", "Mkdir", "MkdirAll", "Remove", "RemoveAll", "WriteFile", "Create", "Chdir", "Chmod", "Truncate", "Glob", "WalkDir", "Open"} {
						for _, hp2 := range append([]string{""}, hostile(base)[:6]...) {
							if hp2 != "" && k != "Stat" {
								continue
							}
							idx++
							if idx%c.NShards != c.Shard {
								continue
							}
							ops := append([]fsx.Op{}, prefix...)
							if cd != "" {
								ops = append(ops, fsx.Op{K: "Chdir", P: cd})
							}
							o := fsx.Op{K: k, P: hp, Perm: 0o755, Data: "d", Flag: os.O_RDONLY}
							if hp2 != "" {
								o = fsx.Op{K: "Rename", P: hp, P2: hp2}
							}
							ops = append(ops, o, fsx.Op{K: "Getwd"})
							cs := Case{FS: kind, Base: base, Ops: ops, Spell: int(vt.Hash64(kind, base, cd, o.String()) % 4)}
							if dev := run(c, cs); dev != nil {
								c.Report(dev, cs)
							}
							c.NonTrivial(vt.Hash64(kind, base, cd, o.String()))
						}
					}
				}
			}
		}
		ncases := c.Pick(5000, 80000)
		if win {
			ncases = c.Pick(2500, 30000)
		}
		c.Rapid("hist-"+kind, ncases, func(t *rapid.T) *vt.Failure {
			base := rapid.SampledFrom(bases).Draw(t, "base")
			cs := Case{FS: kind, Base: base, Spell: rapid.IntRange(0, 3).Draw(t, "spell")}
			in, err := newInst(kind, base, cs.Spell)
			if err != nil {
				c.Inconclusive("instance: " + err.Error())
				return nil
			}
			defer in.close()
			nt := false
			held := map[int]bool{}
			for n := rapid.IntRange(1, 30).Draw(t, "n"); n > 0; n-- {
				ops := []fsx.Op(nil)
				switch rapid.IntRange(0, 7).Draw(t, "what") {
				case 7: // a view of the wrapper, its directory named by any spelling
					ps := append(hostile(base), cfg.Paths()...)
					ps = append(ps, "a", "w", "w/a", "../a", ".", "b")
					ops = []fsx.Op{{K: "SubProbe", P: rapid.SampledFrom(ps).Draw(t, "subdir")}}
				case 6: // the working directory of the underlying file system leaves the base directory
					ops = []fsx.Op{{K: "BaseChdir", P: rapid.SampledFrom([]string{"/", "/w", "/a", base + "2"}).Draw(t, "out")}, {K: "Getwd"}, {K: "Abs", P: "x"},
						{K: "Stat", P: rapid.SampledFrom([]string{"w", ".", "a", "secret", "outside", "b", "x"}).Draw(t, "rel")}}
					nt = true
				case 0: // open a handle through a (possibly hostile) spelling and keep it
					h := rapid.IntRange(1, 2).Draw(t, "h")
					ps := append(hostile(base), cfg.Paths()...)
					ops = []fsx.Op{{K: "Open", P: rapid.SampledFrom(ps).Draw(t, "op"), Flag: rapid.SampledFrom([]int{os.O_RDONLY, os.O_RDWR, os.O_RDWR | os.O_CREATE, os.O_WRONLY | os.O_APPEND}).Draw(t, "fl"), Perm: 0o644, H: h},
						{K: "FName", H: h}, {K: "FStat", H: h}}
					held[h] = true
				case 1: // a call on a kept handle: names and error paths of handles are virtual too
					h := rapid.IntRange(1, 2).Draw(t, "h")
					if !held[h] {
						continue
					}
					k := rapid.SampledFrom([]string{"FName", "FStat", "FChdir", "FRead", "FReadDir", "FReaddirnames", "FWrite", "FWriteString", "FWriteAt", "FReadAt", "FSeek", "FTruncate", "FChmod", "FChown", "FSync", "FClose"}).Draw(t, "hk")
					o := fsx.Op{K: k, H: h, N: rapid.SampledFrom([]int{0, 2, 64}).Draw(t, "n"), Data: "h", Off: rapid.SampledFrom([]int64{-1, 0, 3}).Draw(t, "off"),
						Size: rapid.SampledFrom([]int64{-1, 0, 5}).Draw(t, "size"), Perm: 0o600, Uid: -1, Gid: -1, Whence: rapid.SampledFrom([]int{0, 2, 7}).Draw(t, "wh")}
					ops = []fsx.Op{o}
					if k == "FChdir" {
						ops = append(ops, fsx.Op{K: "Getwd"}, fsx.Op{K: "Abs", P: "x"})
					}
					if k == "FReadDir" || k == "FReaddirnames" {
						ops[0].N = rapid.SampledFrom([]int{-1, 0, 2}).Draw(t, "dn")
					}
					if k == "FClose" {
						held[h] = false
					}
				default:
					ops = drawOp(t, cfg, base, win)
				}
				for _, o := range ops {
					cs.Ops = append(cs.Ops, o)
					c.Label("path:" + pathClass(o.P))
					dev := in.step(c, o)
					if dev != nil {
						return &vt.Failure{Dev: dev, Replay: cs}
					}
					if pc := pathClass(o.P); pc != "plain" && pc != "unclean" {
						nt = true
					}
				}
			}
			if dev := in.parity(); dev != nil {
				return &vt.Failure{Dev: dev, Replay: cs}
			}
			if nt {
				parts := []string{kind, base}
				for _, o := range cs.Ops {
					parts = append(parts, o.String())
				}
				c.NonTrivial(vt.Hash64(parts...))
				c.Sample("hist-"+kind, map[string]any{"fs": kind, "base": base, "ops": len(cs.Ops), "last": cs.Ops[len(cs.Ops)-1].String()})
			}
			return nil
		})
	}
	c.SetExhaustive(true)
}

func kindsFor() []string {
	var ks []string
	for _, k := range gen.AllKinds {
		if k == "Symlink" || k == "Readlink" || k == "EvalSymlinks" {
			continue // BasePathFS does not advertise symbolic links
		}
		ks = append(ks, k)
	}
	// Abs: a returned path is in the wrapper's own name space
	return append(ks, "Glob", "Abs")
}
