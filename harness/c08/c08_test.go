// C08 - no data race under the documented concurrent use.
package c08

import (
	"encoding/json"
	"fmt"
	"os"
	"path/filepath"
	"regexp"
	"runtime"
	"sort"
	"strings"
	"sync"
	"testing"
	"time"

	"github.com/avfs/avfs"
	"github.com/avfs/avfs/idm/memidm"
	"github.com/avfs/avfs/vfs/memfs"
	"github.com/avfs/avfs/vfs/orefafs"
	"pgregory.net/rapid"

	"verif/harness/internal/fsx"
	"verif/harness/internal/gen"
	"verif/harness/internal/vt"
)

// Program is a replayable C08 case: the journal written before it runs.
type Program struct {
	Kind    string     `json:"kind"` // MemFS | OrefaFS | MemIdm | MemFS-sharedhandle | OrefaFS-sharedhandle
	Prefix  []fsx.Op   `json:"prefix,omitempty"`
	Workers [][]fsx.Op `json:"workers,omitempty"`
	Idm     [][]string `json:"idm,omitempty"`
	Runs    int        `json:"runs"`
}

var prefix = []fsx.Op{
	{K: "Mkdir", P: "/w/a", Perm: 0o777}, {K: "Mkdir", P: "/w/b", Perm: 0o777}, {K: "WriteFile", P: "/w/a/x", Data: "0123456789", Perm: 0o666},
	{K: "WriteFile", P: "/w/b/x", Data: "BX", Perm: 0o666}, {K: "Mkdir", P: "/w/a/d", Perm: 0o777}, {K: "Link", P: "/w/a/x", P2: "/w/b/hl"},
	{K: "Chmod", P: "/w", Perm: 0o777},
	// a sibling whose name extends another directory's name (paths related as strings, not as ancestors)
	{K: "Mkdir", P: "/w/ab", Perm: 0o777}, {K: "WriteFile", P: "/w/ab/y", Data: "ABY", Perm: 0o666},
	// a symbolic link (where supported): Lchown is the one call that changes a link node in place
	{K: "Symlink", P: "a/x", P2: "/w/sl"},
}

func raceLog() string {
	for _, kv := range strings.Fields(os.Getenv("GORACE")) {
		if strings.HasPrefix(kv, "log_path=") {
			return fmt.Sprintf("%s.%d", kv[len("log_path="):], os.Getpid())
		}
	}
	return ""
}

func logSize() int64 {
	fi, err := os.Stat(raceLog())
	if err != nil {
		return 0
	}
	return fi.Size()
}

var stalled bool

var frameRe = regexp.MustCompile(`^\s+(github\.com/avfs/avfs[^\s(]*(?:\([^)]*\))?[^\s(]*)\(`)

// parseRaces extracts, from race detector output, the unordered pairs of
// innermost avfs functions of every report.
func parseRaces(txt string) []string {
	var out []string
	for _, rep := range strings.Split(txt, "WARNING: DATA RACE")[1:] {
		var stacks [][]string
		var cur []string
		for _, line := range strings.Split(rep, "\n") {
			t := strings.TrimSpace(line)
			if strings.HasSuffix(t, ":") && (strings.Contains(t, " by goroutine ") || strings.Contains(t, " by main goroutine")) {
				if cur != nil {
					stacks = append(stacks, cur)
				}
				cur = []string{}
				continue
			}
			if strings.HasPrefix(t, "Goroutine ") && strings.Contains(t, "created at") {
				if cur != nil {
					stacks = append(stacks, cur)
					cur = nil
				}
				break
			}
			if cur != nil {
				if m := frameRe.FindStringSubmatch(line); m != nil {
					cur = append(cur, m[1])
				}
			}
		}
		if cur != nil {
			stacks = append(stacks, cur)
		}
		var fns []string
		for _, s := range stacks {
			if len(s) > 0 {
				fns = append(fns, strings.TrimPrefix(s[0], "github.com/avfs/avfs/"))
			}
		}
		if len(fns) >= 2 {
			pair := []string{fns[0], fns[1]}
			sort.Strings(pair)
			out = append(out, pair[0]+" <-> "+pair[1])
		} else if len(fns) == 1 {
			out = append(out, fns[0]+" <-> ?")
		}
	}
	return out
}

func newFS(kind string) (avfs.VFS, []avfs.UserReader) {
	if strings.HasPrefix(kind, "OrefaFS") {
		v := orefafs.NewWithOptions(&orefafs.Options{OSType: avfs.OsLinux})
		_ = v.SetUMask(0o022)
		_ = v.Mkdir("/w", 0o777)
		return v, nil
	}
	idm := memidm.NewWithOptions(&memidm.Options{OSType: avfs.OsLinux})
	_, _ = idm.AddGroup("g1")
	u1, _ := idm.AddUser("u1", "g1")
	u2, _ := idm.AddUser("u2", "g1")
	v := memfs.NewWithOptions(&memfs.Options{OSType: avfs.OsLinux, Idm: idm})
	_ = v.SetUMask(0o022)
	_ = v.Mkdir("/w", 0o777)
	_ = v.Chdir("/")
	return v, []avfs.UserReader{idm.AdminUser(), u1, u2}
}

// execute runs the program once, free-running on all cores.
func execute(p Program) (visibility string) {
	if p.Kind == "MemIdm" {
		idm := memidm.New()
		var wg sync.WaitGroup
		for _, calls := range p.Idm {
			calls := calls
			wg.Add(1)
			go func() {
				defer wg.Done()
				defer func() { _ = recover() }()
				for _, c := range calls {
					idmDo(idm, c)
				}
			}()
		}
		wg.Wait()
		return ""
	}
	v, users := newFS(p.Kind)
	r := fsx.NewRunner(v)
	for _, o := range p.Prefix {
		_ = r.Do(o)
	}
	var shared avfs.File
	if strings.HasSuffix(p.Kind, "-sharedhandle") {
		shared, _ = v.OpenFile("/w/a/x", os.O_RDWR, 0)
	}
	var wg sync.WaitGroup
	start := make(chan struct{})
	for i, ops := range p.Workers {
		i, ops := i, ops
		var view avfs.VFS = v
		if strings.HasPrefix(p.Kind, "MemFS") {
			sub, err := v.Sub("/")
			if err != nil {
				continue
			}
			_ = sub.SetUser(users[i%len(users)])
			view = sub
		}
		wg.Add(1)
		go func() {
			defer wg.Done()
			wr := fsx.NewRunner(view)
			wr.Guard = 0 // free running: one goroutine per worker, nothing else
			if shared != nil {
				wr.Handles[9] = shared
			}
			<-start
			for _, o := range ops {
				_ = wr.Do(o)
			}
			for k, h := range wr.Handles {
				if k != 9 && h != nil {
					func() {
						defer func() { _ = recover() }()
						_ = h.Close()
					}()
				}
			}
		}()
	}
	close(start)
	if stacks := waitOrDump(&wg, 45*time.Second); stacks != "" {
		return "STALL:" + stacks
	}
	// visibility clause: A completes a mutation, signals B, B must observe it
	var a, b avfs.VFS = v, v
	if strings.HasPrefix(p.Kind, "MemFS") {
		a, _ = v.Sub("/")
		b, _ = v.Sub("/")
	}
	done := make(chan struct{})
	var seen, werr error
	go func() {
		// a path of its own: the workers may have left anything below /w
		if werr = a.MkdirAll("/vis/d", 0o755); werr == nil {
			werr = a.WriteFile("/vis/d/f", []byte("visible"), 0o644)
		}
		close(done)
	}()
	<-done
	if werr != nil {
		return "" // the writer itself failed: nothing to observe
	}
	got, err := b.ReadFile("/vis/d/f")
	if err != nil || string(got) != "visible" {
		seen = fmt.Errorf("after the writer signalled completion the reader got %q, %v", got, err)
	}
	if seen != nil {
		return seen.Error()
	}
	return ""
}

// waitOrDump waits for the workers; if none finishes the wait within the
// bound it returns the stacks of all goroutines (the workers are then most
// likely dead-locked: decided from the stacks by the caller, never from time alone).
func waitOrDump(wg *sync.WaitGroup, d time.Duration) string {
	done := make(chan struct{})
	go func() { wg.Wait(); close(done) }()
	select {
	case <-done:
		return ""
	case <-time.After(d):
		buf := make([]byte, 1<<20)
		n := runtime.Stack(buf, true)
		return string(buf[:n])
	}
}

// lockedInMutex reports whether every goroutine that is inside avfs code is
// parked in a mutex acquisition: nobody can release, a genuine deadlock.
func lockedInMutex(stacks string) (bool, string) {
	var inAvfs, parked int
	var where []string
	for _, g := range strings.Split(stacks, "\n\n") {
		if !strings.Contains(g, "github.com/avfs/avfs/") {
			continue
		}
		inAvfs++
		first := strings.SplitN(g, "\n", 2)[0]
		if strings.Contains(first, "sync.RWMutex") || strings.Contains(first, "sync.Mutex") || strings.Contains(first, "semacquire") {
			parked++
			for _, l := range strings.Split(g, "\n") {
				if strings.HasPrefix(l, "github.com/avfs/avfs/") {
					where = append(where, strings.SplitN(strings.TrimPrefix(l, "github.com/avfs/avfs/"), "(0x", 2)[0])
					break
				}
			}
		}
	}
	sort.Strings(where)
	return inAvfs > 0 && parked == inAvfs, strings.Join(where, " | ")
}

func idmDo(idm avfs.IdentityMgr, c string) {
	parts := strings.SplitN(c, ":", 3)
	arg := func(i int) string {
		if i < len(parts) {
			return parts[i]
		}
		return ""
	}
	switch parts[0] {
	case "AddGroup":
		_, _ = idm.AddGroup(arg(1))
	case "AddUser":
		_, _ = idm.AddUser(arg(1), arg(2))
	case "DelGroup":
		_ = idm.DelGroup(arg(1))
	case "DelUser":
		_ = idm.DelUser(arg(1))
	case "LookupGroup":
		_, _ = idm.LookupGroup(arg(1))
	case "LookupUser":
		_, _ = idm.LookupUser(arg(1))
	case "LookupUserId":
		_, _ = idm.LookupUserId(1001)
	case "LookupGroupId":
		_, _ = idm.LookupGroupId(1001)
	}
}

// judge runs the program p.Runs times and turns new race reports into deviations.
func judge(c *vt.Ctx, p Program) []*vt.Deviation {
	journal(c, p)
	before := logSize()
	var devs []*vt.Deviation
	for i := 0; i < p.Runs; i++ {
		c.Eval(1)
		if msg := execute(p); msg != "" {
			if strings.HasPrefix(msg, "STALL:") {
				// the workers did not finish: a deadlock is C07's property; here it only
				// means that this run cannot be judged. The stacks say whether it is one.
				dead, where := lockedInMutex(msg)
				_ = os.WriteFile(filepath.Join(c.OutDir, fmt.Sprintf("stall-%d.txt", c.Shard)), []byte(msg), 0o644)
				c.Inconclusive(fmt.Sprintf("free-running program did not finish within 45 s (all avfs goroutines parked in a mutex: %v; at %s); see C07", dead, where))
				stalled = true
				break
			}
			d := vt.Dev("prop", "C08", "fs", p.Kind, "clause", "visibility")
			d.Detail = msg
			devs = append(devs, d)
			break
		}
	}
	if after := logSize(); after > before {
		b, _ := os.ReadFile(raceLog())
		if int64(len(b)) >= after {
			seen := map[string]bool{}
			for _, pair := range parseRaces(string(b[before:after])) {
				if seen[pair] {
					continue
				}
				seen[pair] = true
				d := vt.Dev("prop", "C08", "fs", p.Kind, "clause", "race", "pair", pair)
				d.Detail = fmt.Sprintf("data race between %s (program of %d goroutines, %d runs)", pair, len(p.Workers)+len(p.Idm), p.Runs)
				devs = append(devs, d)
			}
		}
	}
	return devs
}

// journal writes the program before it runs: if the process dies with a
// runtime fatal error the driver reports the journal as the replay.
func journal(c *vt.Ctx, p Program) {
	if c.OutDir == "" {
		return
	}
	b, _ := json.Marshal(map[string]any{"property": "C08", "case": p})
	_ = os.WriteFile(filepath.Join(c.OutDir, fmt.Sprintf("journal-%d.json", c.Shard)), b, 0o644)
}

var fileOps = []fsx.Op{
	{K: "Open", P: "/w/a/x", Flag: os.O_RDWR, H: 0}, {K: "FRead", H: 0, N: 4}, {K: "FWrite", H: 0, Data: "ww"}, {K: "FReadAt", H: 0, N: 4, Off: 2}, {K: "FWriteAt", H: 0, Data: "at", Off: 3},
	{K: "FSeek", H: 0, Off: 1, Whence: 0}, {K: "FTruncate", H: 0, Size: 5}, {K: "FStat", H: 0}, {K: "FSync", H: 0}, {K: "FChmod", H: 0, Perm: 0o666},
	{K: "Open", P: "/w/a", Flag: os.O_RDONLY, H: 1}, {K: "FReadDir", H: 1, N: 1}, {K: "FReaddirnames", H: 1, N: -1}, {K: "FClose", H: 1},
	{K: "Rename", P: "/w/a/x", P2: "/w/ab/x"}, {K: "Rename", P: "/w/ab/x", P2: "/w/a/x"}, {K: "Rename", P: "/w/ab/y", P2: "/w/a/y"}, {K: "Rename", P: "/w/a/y", P2: "/w/ab/y"},
	{K: "Open", P: "/w/ab", Flag: os.O_RDONLY, H: 2}, {K: "FReadDir", H: 2, N: -1}, {K: "FStat", H: 2}, {K: "FClose", H: 2}, {K: "FStat", H: 1}, {K: "FReadDir", H: 1, N: -1},
	{K: "Lchown", P: "/w/sl", Uid: 1001, Gid: 1002}, {K: "Lchown", P: "/w/sl", Uid: 0, Gid: 0}, {K: "Lstat", P: "/w/sl"}, {K: "ReadDir", P: "/w"}, {K: "Readlink", P: "/w/sl"},
	{K: "Chown", P: "/w/a/x", Uid: 1001, Gid: -1}, {K: "Lstat", P: "/w/a/x"},
	// truncation at open time, whatever the access mode, against the readers of other handles of the file
	{K: "Open", P: "/w/a/x", Flag: os.O_RDONLY | os.O_TRUNC, H: 3}, {K: "FClose", H: 3}, {K: "Open", P: "/w/a/x", Flag: os.O_WRONLY | os.O_TRUNC, H: 3}, {K: "FWrite", H: 3, Data: "again"},
	// the working directory of a MemFS worker belongs to its own view: setting it reads the shared tree (as that view's user)
	{K: "FChdir", H: 1}, {K: "FChdir", H: 2}, {K: "Chdir", P: "/w/a"}, {K: "Chdir", P: "/w/ab"}, {K: "Chdir", P: "/w"}, {K: "Getwd"},
	{K: "Chmod", P: "/w/a", Perm: 0o711}, {K: "Chmod", P: "/w/a", Perm: 0o777}, {K: "Chown", P: "/w/ab", Uid: 1001, Gid: 1002}, {K: "Chown", P: "/w/ab", Uid: 0, Gid: 0}, {K: "FChmod", H: 2, Perm: 0o755},
	// the umask of the instance the goroutine uses (its own view on MemFS, the shared instance on OrefaFS) against the calls that create
	{K: "SetUMask", Perm: 0o027}, {K: "SetUMask", Perm: 0o022}, {K: "UMask"},
	// the root of the tree: an open handle of it against the call that empties it (only in programs drawn with "wipe")
	{K: "Open", P: "/", Flag: os.O_RDONLY, H: 4}, {K: "FStat", H: 4}, {K: "FReadDir", H: 4, N: -1}, {K: "FReaddirnames", H: 4, N: 2}, {K: "FClose", H: 4}, {K: "RemoveAll", P: "/"},
	// the handle shared by two goroutines (slot 9)
	{K: "FRead", H: 9, N: 3}, {K: "FWrite", H: 9, Data: "s"}, {K: "FSeek", H: 9, Off: 0, Whence: 0}, {K: "FStat", H: 9}, {K: "FReadAt", H: 9, N: 2, Off: 0}, {K: "FWriteAt", H: 9, Data: "S", Off: 1}, {K: "FTruncate", H: 9, Size: 3}, {K: "FName", H: 9},
}

var rootOps = []fsx.Op{{K: "Open", P: "/", Flag: os.O_RDONLY, H: 4}, {K: "FStat", H: 4}, {K: "FStat", H: 4}, {K: "FReadDir", H: 4, N: -1}, {K: "FReaddirnames", H: 4, N: 2}, {K: "RemoveAll", P: "/"},
	{K: "Mkdir", P: "/w", Perm: 0o777}, {K: "WriteFile", P: "/w/n", Data: "n", Perm: 0o666}, {K: "Mkdir", P: "/top", Perm: 0o777}}

func TestCheck(t *testing.T) {
	c := vt.New(t, "C08")
	defer c.Finish()
	if raceLog() == "" {
		c.Inconclusive("not started by bin/check: GORACE log_path missing (the race detector's reports could not be read)")
		return
	}
	for _, f := range c.ReplayFiles() {
		var p Program
		if err := vt.LoadReplay(f, &p); err != nil {
			c.Inconclusive("replay " + f + ": " + err.Error())
			continue
		}
		if p.Runs < 200 {
			p.Runs = 200
		}
		for _, dev := range judge(c, p) {
			if k := c.KnownFor(dev); k != nil {
				c.WitnessLive(k.ID)
			}
			c.Report(dev, p)
		}
	}
	if c.Replay != "" {
		return
	}
	runs := c.Pick(20, 60)
	for _, kind := range []string{"MemFS", "OrefaFS", "MemFS-sharedhandle", "OrefaFS-sharedhandle"} {
		kind := kind
		cfg := gen.Config{Symlinks: strings.HasPrefix(kind, "MemFS"), Root: false, Base: "/w", NoTemp: false, NoChdir: true, NoTmp: true,
			Kinds: append(append([]string{}, gen.AllKinds...), "Glob")}
		c.Rapid("programs-"+kind, c.Pick(150, 1500), func(t *rapid.T) *vt.Failure {
			p := Program{Kind: kind, Prefix: prefix, Runs: runs}
			nw := rapid.IntRange(2, 16).Draw(t, "goroutines")
			// a few hot paths so that pairs of calls meet on the same node
			hot := rapid.SliceOfN(rapid.SampledFrom(cfg.Paths()), 1, 3).Draw(t, "hot")
			touched := map[string]int{}
			writers := 0
			wipe := strings.HasPrefix(kind, "MemFS") && rapid.IntRange(0, 3).Draw(t, "wipe") == 0
			for w := 0; w < nw; w++ {
				var ops []fsx.Op
				for n := rapid.IntRange(5, 40).Draw(t, "ops"); n > 0; n-- {
					if wipe && rapid.IntRange(0, 3).Draw(t, "root") == 0 {
						// (the last six entries before the shared-handle ones: the root directory's handle and its removal)
						ops = append(ops, rootOps[rapid.IntRange(0, len(rootOps)-1).Draw(t, "rop")])
						continue
					}
					if rapid.IntRange(0, 3).Draw(t, "file") == 0 {
						o := fileOps[rapid.IntRange(0, len(fileOps)-1).Draw(t, "fop")]
						if o.H == 9 && !strings.HasSuffix(kind, "-sharedhandle") {
							continue
						}
						if (o.H == 4 || o.K == "RemoveAll") && !wipe {
							continue
						}
						if (o.K == "Chdir" || o.K == "FChdir") && !strings.HasPrefix(kind, "MemFS") {
							continue // one shared OrefaFS instance has one working directory: a setter, not issued concurrently
						}
						ops = append(ops, o)
						continue
					}
					in := cfg.Draw(t)
					if rapid.IntRange(0, 1).Draw(t, "usehot") == 0 && in[0].K != "Symlink" && in[0].K != "CreateTemp" && in[0].K != "MkdirTemp" {
						in[0].P = rapid.SampledFrom(hot).Draw(t, "hp")
					}
					for _, o := range in {
						if o.K == "RenameTemp" || o.K == "Chdir" || o.K == "FChdir" {
							continue // view-local / shared-instance setters are not issued concurrently
						}
						ops = append(ops, o)
						touched[o.P]++
						if o.K != "Stat" && o.K != "Lstat" && o.K != "ReadDir" && o.K != "ReadFile" {
							writers++
						}
					}
				}
				p.Workers = append(p.Workers, ops)
			}
			for _, dev := range judge(c, p) {
				return &vt.Failure{Dev: dev, Replay: p}
			}
			shared := 0
			for _, n := range touched {
				if n >= 2 {
					shared++
				}
			}
			if shared >= 1 && writers >= 1 {
				c.NonTrivial(vt.Hash64(fmt.Sprint(p.Workers)))
				c.Sample("prog-"+kind, map[string]any{"kind": kind, "goroutines": nw, "runs": runs, "first_ops": opStrings(p.Workers[0], 6)})
			}
			c.Label(fmt.Sprintf("goroutines:%d", nw/4*4))
			return nil
		})
	}
	// shared identity manager
	idmCalls := []string{"AddGroup:g", "AddGroup:h", "DelGroup:g", "AddUser:u:g", "AddUser:v:root", "DelUser:u", "LookupUser:u", "LookupGroup:g", "LookupUserId", "LookupGroupId", "LookupUser:root"}
	c.Rapid("programs-MemIdm", c.Pick(150, 1500), func(t *rapid.T) *vt.Failure {
		p := Program{Kind: "MemIdm", Runs: runs}
		for w := rapid.IntRange(2, 16).Draw(t, "goroutines"); w > 0; w-- {
			p.Idm = append(p.Idm, rapid.SliceOfN(rapid.SampledFrom(idmCalls), 5, 40).Draw(t, "calls"))
		}
		for _, dev := range judge(c, p) {
			return &vt.Failure{Dev: dev, Replay: p}
		}
		c.NonTrivial(vt.Hash64(fmt.Sprint(p.Idm)))
		return nil
	})
}

func opStrings(ops []fsx.Op, n int) []string {
	var r []string
	for i, o := range ops {
		if i >= n {
			break
		}
		r = append(r, o.String())
	}
	return r
}
